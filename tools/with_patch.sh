#!/bin/bash
# usage: with_patch.sh <patch.diff> <command...>   — applies the patch to /repo, runs the command, restores /repo
set -u
patch="$(realpath "$1")"; shift
if ! git -C /repo diff --quiet; then echo "/repo has uncommitted changes; refusing" >&2; exit 9; fi
git -C /repo apply "$patch" || { echo "patch does not apply" >&2; exit 9; }
"$@"
rc=$?
git -C /repo checkout -- .
exit $rc
