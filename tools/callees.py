#!/usr/bin/env python3
"""list callee paths (generic-stripped) reachable from given root functions that are not crate fns"""
import sys, re, collections
sys.path.insert(0, '/verif')
from mirsym.parser import MirCrate, strip_generics
c = MirCrate(sys.argv[1])
roots = sys.argv[2:]
cnt = collections.Counter()
for name, lst in c.index.items():
    if roots and not any(r in name for r in roots):
        continue
    for w in range(len(lst)):
        f = c.func(name, w)
        for bb, sts in f.blocks.items():
            for st in sts:
                if st[0] == 'call':
                    cnt[strip_generics(st[2])] += 1
for k, v in sorted(cnt.items()):
    print(v, k)
