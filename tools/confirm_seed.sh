#!/bin/bash
# usage: confirm_seed.sh <worktree> <id>  — confirm a seeded change in its scratch worktree:
#  (a) lib tests pass with the change, (b) demo test fails with it, (c) demo test passes without it
# (no `git stash`: the stash is shared by all worktrees of a repository)
wt="$1"; id="$2"
cd "$wt" || exit 9
export CARGO_NET_OFFLINE=true
p="/tmp/confirm_$id.diff"
git diff -- src > "$p"
[ -s "$p" ] || { echo "no source change in $wt"; exit 9; }
echo "[a] lib tests with the change"
cargo test --offline --lib 2>&1 | grep -E "^test result" | tail -1
echo "[b] demo test with the change (expected: FAILED)"
cargo test --offline --test seeded_$id 2>&1 | grep -E "^test result|FAILED|panicked" | head -4
git apply -R "$p"
echo "[c] demo test without the change (expected: ok)"
cargo test --offline --test seeded_$id 2>&1 | grep -E "^test result" | tail -1
git apply "$p"
git diff --stat -- src | tail -1
