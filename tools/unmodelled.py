#!/usr/bin/env python3
"""list callee paths (from functions whose name matches any root substring) with no model and no static crate resolution"""
import sys, re, collections
sys.path.insert(0, '/verif')
from mirsym.interp import Interp
from mirsym.parser import strip_generics
I = Interp(sys.argv[1])
roots = sys.argv[2:]
cnt = collections.Counter()
for name, lst in I.crate.index.items():
    if roots and not any(r in name for r in roots):
        continue
    for w in range(len(lst)):
        f = I.crate.func(name, w)
        for bb, sts in f.blocks.items():
            for st in sts:
                if st[0] == 'call':
                    p = st[2]
                    if p.startswith(('move ', 'copy ')):
                        continue
                    sp = strip_generics(p)
                    if I.models.lookup(sp):
                        continue
                    try:
                        if I.resolve(sp, p, []):
                            continue
                    except Exception as e:
                        pass
                    if re.match(r'<.* as .*>::', sp) and ('dyn ' in sp or re.match(r'<[A-Z]\w{0,3} as', sp)):
                        continue
                    cnt[sp] += 1
for k, v in sorted(cnt.items()):
    print(v, k)
