#!/bin/bash
# usage: try_patch.sh <name> <patch.diff|-> <CNN> [CNN...]   (env TIER=quick|thorough, WORKERS=n)
# Development aid: runs checks against a scratch worktree of /repo with the patch applied, without touching /repo
# or /verif/.build (so it can run next to other checks).  Prints "<name> <CNN> exit=<code>" per check.
name="$1"; patch="$2"; shift 2
wt=/tmp/tp-wt-$name; vb=/tmp/tp-vb-$name
git -C /repo worktree remove --force "$wt" >/dev/null 2>&1; rm -rf "$wt" "$vb"
git -C /repo worktree add -q --detach "$wt" HEAD || exit 9
if [ "$patch" != "-" ]; then git -C "$wt" apply "$patch" || { echo "$name patch does not apply"; git -C /repo worktree remove --force "$wt"; exit 9; }; fi
mkdir -p "$vb"
cp -r /verif/.build/mir-target /verif/.build/replay-target "$vb"/ 2>/dev/null
cd /verif
for p in "$@"; do
  env VERIF_REPO="$wt" VERIF_BUILD="$vb" ${WORKERS:+VERIF_WORKERS=$WORKERS} ./check "$p" --tier "${TIER:-quick}" > "$vb/$p.out" 2>&1
  rc=$?
  echo "$name $p exit=$rc $(grep -E '^(VIOLATION|INCONCLUSIVE|KNOWN-FINDING)' "$vb/$p.out" | head -2 | tr '\n' ' ' | cut -c1-260)"
  if [ $rc -ne 0 ] && [ -n "$KEEP" ]; then mkdir -p /tmp/tp-fail; cp "$vb/$p.out" "/tmp/tp-fail/$name-$p.out"; fi
done
git -C /repo worktree remove --force "$wt" >/dev/null 2>&1
rm -rf "$wt" "$vb"
