#!/bin/bash
# usage: confirm_r6.sh <ID>   — confirm a round-6 seeded change in its scratch worktree /tmp/wt-r6-<ID> with the
# deliverables in /tmp/seed-r6/<ID>: suite passes with the change, demonstration fails with it, passes without it.
id="$1"; lid=$(echo "$id" | tr A-Z a-z)
wt=/tmp/wt-r6-$id; d=/tmp/seed-r6/$id
cd "$wt" || exit 9
export CARGO_NET_OFFLINE=true CARGO_TARGET_DIR=$wt/target
if ls tests/seeded_${lid}_r6.rs >/dev/null 2>&1; then demo="--test seeded_${lid}_r6"; else demo="--lib seeded_${lid}_r6"; fi
git apply --check -R "$d/patch.diff" || { echo "patch.diff is not applied in $wt"; exit 9; }
echo "[b] demonstration with the change (expected: FAILED): cargo test $demo"
cargo test --offline $demo 2>&1 | grep -E "^test result|^test .*FAILED" | head -5
git apply -R "$d/patch.diff"
echo "[c] demonstration without the change (expected: ok)"
cargo test --offline $demo 2>&1 | grep -E "^test result" | tail -2
git apply "$d/patch.diff"
echo "[a] lib + integration tests with the change (demonstration tests excluded from the count by name)"
cargo test --offline --lib 2>&1 | grep -E "^test result|^test .*FAILED" | head -6
cargo test --offline --test syncing-proptest --test cross-sync --test update-and-delete-sync 2>&1 | grep -E "^test result" | tr '\n' ' '
echo
git apply --stat "$d/patch.diff" | tail -1
