//! A Storage wrapper (public traits only) that fails the k-th storage call made while it is armed.
use std::sync::{Arc, Mutex};

use async_trait::async_trait;
use taskchampion::storage::inmemory::InMemoryStorage;
use taskchampion::storage::{Storage, StorageTxn, TaskMap};
use taskchampion::{Error, Operation, Uuid};

type TResult<T> = std::result::Result<T, Error>;

#[derive(Default)]
pub struct FaultPlan {
    pub armed: bool,
    pub count: u64,
    pub fail_at: u64,
    pub after: bool,
    pub fired: Option<String>,
}

pub struct FaultyStorage {
    pub inner: InMemoryStorage,
    pub plan: Arc<Mutex<FaultPlan>>,
}

impl FaultyStorage {
    pub fn new() -> Self {
        FaultyStorage {
            inner: InMemoryStorage::new(),
            plan: Arc::new(Mutex::new(FaultPlan::default())),
        }
    }
}

/// returns Some(after) when this call is the one to fail
fn tick(plan: &Arc<Mutex<FaultPlan>>, what: &str) -> Option<bool> {
    let mut p = plan.lock().unwrap();
    if !p.armed {
        return None;
    }
    p.count += 1;
    if p.count == p.fail_at && p.fired.is_none() {
        p.fired = Some(what.to_string());
        return Some(p.after);
    }
    None
}

fn fault() -> Error {
    Error::Other(anyhow::anyhow!("injected storage fault"))
}

pub struct FaultyTxn<'t> {
    inner: Box<dyn StorageTxn + Send + 't>,
    plan: Arc<Mutex<FaultPlan>>,
}

macro_rules! guarded {
    ($self:ident, $name:expr, $call:expr) => {{
        match tick(&$self.plan, $name) {
            Some(false) => Err(fault()),
            Some(true) => {
                let _ = $call;
                Err(fault())
            }
            None => $call,
        }
    }};
}

#[async_trait]
impl StorageTxn for FaultyTxn<'_> {
    async fn get_task(&mut self, uuid: Uuid) -> TResult<Option<TaskMap>> {
        guarded!(self, "get_task", self.inner.get_task(uuid).await)
    }
    async fn get_pending_tasks(&mut self) -> TResult<Vec<(Uuid, TaskMap)>> {
        guarded!(self, "get_pending_tasks", self.inner.get_pending_tasks().await)
    }
    async fn create_task(&mut self, uuid: Uuid) -> TResult<bool> {
        guarded!(self, "create_task", self.inner.create_task(uuid).await)
    }
    async fn set_task(&mut self, uuid: Uuid, task: TaskMap) -> TResult<()> {
        guarded!(self, "set_task", self.inner.set_task(uuid, task).await)
    }
    async fn delete_task(&mut self, uuid: Uuid) -> TResult<bool> {
        guarded!(self, "delete_task", self.inner.delete_task(uuid).await)
    }
    async fn all_tasks(&mut self) -> TResult<Vec<(Uuid, TaskMap)>> {
        guarded!(self, "all_tasks", self.inner.all_tasks().await)
    }
    async fn all_task_uuids(&mut self) -> TResult<Vec<Uuid>> {
        guarded!(self, "all_task_uuids", self.inner.all_task_uuids().await)
    }
    async fn base_version(&mut self) -> TResult<Uuid> {
        guarded!(self, "base_version", self.inner.base_version().await)
    }
    async fn set_base_version(&mut self, version: Uuid) -> TResult<()> {
        guarded!(self, "set_base_version", self.inner.set_base_version(version).await)
    }
    async fn get_task_operations(&mut self, uuid: Uuid) -> TResult<Vec<Operation>> {
        guarded!(self, "get_task_operations", self.inner.get_task_operations(uuid).await)
    }
    async fn unsynced_operations(&mut self) -> TResult<Vec<Operation>> {
        guarded!(self, "unsynced_operations", self.inner.unsynced_operations().await)
    }
    async fn num_unsynced_operations(&mut self) -> TResult<usize> {
        guarded!(self, "num_unsynced_operations", self.inner.num_unsynced_operations().await)
    }
    async fn add_operation(&mut self, op: Operation) -> TResult<()> {
        guarded!(self, "add_operation", self.inner.add_operation(op).await)
    }
    async fn remove_operation(&mut self, op: Operation) -> TResult<()> {
        guarded!(self, "remove_operation", self.inner.remove_operation(op).await)
    }
    async fn sync_complete(&mut self) -> TResult<()> {
        guarded!(self, "sync_complete", self.inner.sync_complete().await)
    }
    async fn get_working_set(&mut self) -> TResult<Vec<Option<Uuid>>> {
        guarded!(self, "get_working_set", self.inner.get_working_set().await)
    }
    async fn add_to_working_set(&mut self, uuid: Uuid) -> TResult<usize> {
        guarded!(self, "add_to_working_set", self.inner.add_to_working_set(uuid).await)
    }
    async fn set_working_set_item(&mut self, index: usize, uuid: Option<Uuid>) -> TResult<()> {
        guarded!(self, "set_working_set_item", self.inner.set_working_set_item(index, uuid).await)
    }
    async fn clear_working_set(&mut self) -> TResult<()> {
        guarded!(self, "clear_working_set", self.inner.clear_working_set().await)
    }
    async fn is_empty(&mut self) -> TResult<bool> {
        // not counted itself: the default implementation's four calls are (as in the trait default)
        let mut empty = true;
        empty = empty && self.all_tasks().await?.is_empty();
        empty = empty && self.get_working_set().await? == vec![None];
        empty = empty && self.base_version().await? == Uuid::nil();
        empty = empty && self.unsynced_operations().await?.is_empty();
        Ok(empty)
    }
    async fn commit(&mut self) -> TResult<()> {
        guarded!(self, "commit", self.inner.commit().await)
    }
}

#[async_trait]
impl Storage for FaultyStorage {
    async fn txn<'a>(&'a mut self) -> TResult<Box<dyn StorageTxn + Send + 'a>> {
        if let Some(_) = tick(&self.plan, "txn") {
            return Err(fault());
        }
        let inner = self.inner.txn().await?;
        Ok(Box::new(FaultyTxn {
            inner,
            plan: self.plan.clone(),
        }))
    }
}
