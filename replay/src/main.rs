//! Replays a JSON scenario (produced from a solver model) on the compiled crate through its
//! public API and prints what happened as JSON.  Ordinary Rust, no instrumentation needed for the
//! sync scenarios; the object-store scenarios use the cfg-guarded hook module.
use std::cell::RefCell;
use std::collections::BTreeMap;
use std::future::Future;
use std::pin::Pin;
use std::rc::Rc;
use std::task::{Context, Poll, RawWaker, RawWakerVTable, Waker};

use serde_json::{json, Value};
use taskchampion::chrono::{DateTime, Utc};
use taskchampion::server::{
    AddVersionResult, GetVersionResult, HistorySegment, Server, Snapshot, SnapshotUrgency, VersionId,
};
use taskchampion::storage::inmemory::InMemoryStorage;
use taskchampion::{Operation, Operations, Replica, Uuid};

mod faulty;
mod sync_scn;
mod model_scn;
mod cloud_scn;
mod srv_scn;
mod http_scn;
mod refcrypto;

pub fn uuid_of(n: u64) -> Uuid {
    Uuid::from_u128(n as u128)
}

pub fn num_of(u: Uuid) -> u128 {
    u.as_u128()
}

fn noop_waker() -> Waker {
    fn clone(_: *const ()) -> RawWaker {
        RawWaker::new(std::ptr::null(), &VTABLE)
    }
    fn noop(_: *const ()) {}
    static VTABLE: RawWakerVTable = RawWakerVTable::new(clone, noop, noop, noop);
    unsafe { Waker::from_raw(RawWaker::new(std::ptr::null(), &VTABLE)) }
}

/// Drive a future that never really waits.
pub fn block_on<F: Future>(mut f: F) -> F::Output {
    let waker = noop_waker();
    let mut cx = Context::from_waker(&waker);
    let mut f = unsafe { Pin::new_unchecked(&mut f) };
    loop {
        if let Poll::Ready(v) = f.as_mut().poll(&mut cx) {
            return v;
        }
    }
}

pub fn poll_once<F: Future + ?Sized>(f: Pin<&mut F>) -> Poll<F::Output> {
    let waker = noop_waker();
    let mut cx = Context::from_waker(&waker);
    f.poll(&mut cx)
}

fn main() {
    let args: Vec<String> = std::env::args().collect();
    let text = if args.len() > 1 {
        std::fs::read_to_string(&args[1]).expect("read scenario")
    } else {
        let mut s = String::new();
        std::io::Read::read_to_string(&mut std::io::stdin(), &mut s).unwrap();
        s
    };
    let scn: Value = serde_json::from_str(&text).expect("scenario json");
    // a batch of scenarios may be given as an array
    let out = if let Some(arr) = scn.as_array() {
        Value::Array(arr.iter().map(run_one).collect())
    } else {
        run_one(&scn)
    };
    println!("{}", serde_json::to_string(&out).unwrap());
}

fn run_one(scn: &Value) -> Value {
    if let Some(arr) = scn.as_array() {
        return Value::Array(arr.iter().map(run_one).collect());
    }
    let kind = scn["kind"].as_str().unwrap_or("sync");
    let r = std::panic::catch_unwind(std::panic::AssertUnwindSafe(|| match kind {
        "sync" => sync_scn::run(scn),
        "model" => model_scn::run(scn),
        "cloud" => cloud_scn::run(scn),
        "seal" => cloud_scn::run_seal(scn),
        "srvcalls" => srv_scn::run(scn),
        _ => json!({"error": format!("unknown scenario kind {kind}")}),
    }));
    match r {
        Ok(v) => v,
        Err(e) => {
            let msg = if let Some(s) = e.downcast_ref::<String>() {
                s.clone()
            } else if let Some(s) = e.downcast_ref::<&str>() {
                s.to_string()
            } else {
                "panic".to_string()
            };
            json!({"panic": msg})
        }
    }
}

// keep the imports used by sub-modules referenced
#[allow(dead_code)]
fn _unused(
    _: Rc<RefCell<()>>,
    _: BTreeMap<u8, u8>,
    _: Option<(AddVersionResult, GetVersionResult, HistorySegment, Snapshot, SnapshotUrgency, VersionId)>,
    _: Option<(DateTime<Utc>, Operation, Operations, Replica<InMemoryStorage>)>,
    _: Option<Box<dyn Server>>,
) {
}
