//! "sync" scenarios: replicas over InMemoryStorage, a reference in-process Server, sequential or
//! interleaved syncs, commits, undo, working-set rebuilds, expiry; prints final states.
use std::cell::RefCell;
use std::collections::BTreeMap;
use std::future::Future;
use std::pin::Pin;
use std::rc::Rc;
use std::task::Poll;

use async_trait::async_trait;
use serde_json::{json, Value};
use taskchampion::chrono::{DateTime, Utc};
use taskchampion::server::{
    AddVersionResult, GetVersionResult, HistorySegment, Server, Snapshot, SnapshotUrgency, VersionId,
};
use crate::faulty::FaultyStorage as InMemoryStorage;
use taskchampion::{Error, Operation, Operations, Replica, Uuid};

use crate::{block_on, num_of, poll_once, uuid_of};

type TResult<T> = std::result::Result<T, Error>;

#[derive(Default)]
pub struct ServerState {
    pub chain: Vec<(Uuid, Uuid, Vec<u8>)>,
    pub snapshot: Option<(Uuid, Vec<u8>)>,
    pub snapshots: Vec<(Uuid, Vec<u8>, usize)>,
    pub nver: u64,
    pub nreq: u64,
    pub urgency: Vec<u64>,
    pub faults: Vec<(u64, String)>,
    pub log: Vec<Value>,
    /// gate for interleaving: Some(client) = only this client's next request may proceed
    pub turn: Option<usize>,
    pub gated: bool,
}

pub struct RefServer {
    pub st: Rc<RefCell<ServerState>>,
    pub client: usize,
}

/// A future that is pending until the shared state says it is this client's turn.
struct Gate {
    st: Rc<RefCell<ServerState>>,
    client: usize,
}

impl Future for Gate {
    type Output = ();
    fn poll(self: Pin<&mut Self>, _cx: &mut std::task::Context<'_>) -> Poll<()> {
        let mut st = self.st.borrow_mut();
        if !st.gated {
            return Poll::Ready(());
        }
        if st.turn == Some(self.client) {
            st.turn = None;
            Poll::Ready(())
        } else {
            Poll::Pending
        }
    }
}

impl RefServer {
    async fn gate(&self) {
        Gate {
            st: self.st.clone(),
            client: self.client,
        }
        .await
    }

    fn fault(&self, what: &str) -> Option<String> {
        let mut st = self.st.borrow_mut();
        st.nreq += 1;
        let n = st.nreq;
        st.log.push(json!({"req": n, "client": self.client, "what": what}));
        st.faults.iter().find(|(k, _)| *k == n).map(|(_, kind)| kind.clone())
    }
}

#[async_trait(?Send)]
impl Server for RefServer {
    async fn add_version(
        &mut self,
        parent_version_id: VersionId,
        history_segment: HistorySegment,
    ) -> TResult<(AddVersionResult, SnapshotUrgency)> {
        self.gate().await;
        let f = self.fault("add_version");
        if f.as_deref() == Some("err_before") {
            return Err(Error::Server("injected fault".into()));
        }
        let res = {
            let mut st = self.st.borrow_mut();
            let latest = st.chain.last().map(|v| v.1);
            if latest.is_some() && latest != Some(parent_version_id) {
                (
                    AddVersionResult::ExpectedParentVersion(latest.unwrap()),
                    SnapshotUrgency::None,
                )
            } else {
                st.nver += 1;
                let vid = uuid_of(1000 + st.nver);
                st.chain.push((parent_version_id, vid, history_segment));
                let urg = if st.urgency.is_empty() { 0 } else { st.urgency.remove(0) };
                (
                    AddVersionResult::Ok(vid),
                    match urg {
                        0 => SnapshotUrgency::None,
                        1 => SnapshotUrgency::Low,
                        _ => SnapshotUrgency::High,
                    },
                )
            }
        };
        if f.as_deref() == Some("err_after") {
            return Err(Error::Server("injected fault (reply lost)".into()));
        }
        Ok(res)
    }

    async fn get_child_version(&mut self, parent_version_id: VersionId) -> TResult<GetVersionResult> {
        self.gate().await;
        let f = self.fault("get_child_version");
        if f.is_some() {
            return Err(Error::Server("injected fault".into()));
        }
        let st = self.st.borrow();
        for (p, v, data) in st.chain.iter() {
            if *p == parent_version_id {
                return Ok(GetVersionResult::Version {
                    version_id: *v,
                    parent_version_id: *p,
                    history_segment: data.clone(),
                });
            }
        }
        Ok(GetVersionResult::NoSuchVersion)
    }

    async fn add_snapshot(&mut self, version_id: VersionId, snapshot: Snapshot) -> TResult<()> {
        self.gate().await;
        let f = self.fault("add_snapshot");
        if f.as_deref() == Some("err_before") {
            return Err(Error::Server("injected fault".into()));
        }
        {
            let mut st = self.st.borrow_mut();
            let n = st.chain.len();
            st.snapshot = Some((version_id, snapshot.clone()));
            st.snapshots.push((version_id, snapshot, n));
        }
        if f.as_deref() == Some("err_after") {
            return Err(Error::Server("injected fault (reply lost)".into()));
        }
        Ok(())
    }

    async fn get_snapshot(&mut self) -> TResult<Option<(VersionId, Snapshot)>> {
        self.gate().await;
        let f = self.fault("get_snapshot");
        if f.is_some() {
            return Err(Error::Server("injected fault".into()));
        }
        Ok(self.st.borrow().snapshot.clone())
    }
}

/// The real object-store server (hook constructor) behind the public `Server` trait, shared with the
/// scenario runner so that its implicit-cleanup probability can be pinned before every sync.
pub struct CloudBox(pub Rc<RefCell<taskchampion::verif::cloud::VerifCloudServer>>);

#[async_trait(?Send)]
impl Server for CloudBox {
    async fn add_version(
        &mut self,
        parent_version_id: VersionId,
        history_segment: HistorySegment,
    ) -> TResult<(AddVersionResult, SnapshotUrgency)> {
        let mut s = self.0.borrow_mut();
        s.add_version(parent_version_id, history_segment).await
    }
    async fn get_child_version(&mut self, parent_version_id: VersionId) -> TResult<GetVersionResult> {
        let mut s = self.0.borrow_mut();
        s.get_child_version(parent_version_id).await
    }
    async fn add_snapshot(&mut self, version_id: VersionId, snapshot: Snapshot) -> TResult<()> {
        let mut s = self.0.borrow_mut();
        s.add_snapshot(version_id, snapshot).await
    }
    async fn get_snapshot(&mut self) -> TResult<Option<(VersionId, Snapshot)>> {
        let mut s = self.0.borrow_mut();
        s.get_snapshot().await
    }
}

fn cloud_handles(
    store: &taskchampion::verif::cloud::MemStore,
    n: usize,
) -> (Vec<Rc<RefCell<taskchampion::verif::cloud::VerifCloudServer>>>, Vec<Box<dyn Server>>) {
    let mut raw = Vec::new();
    let mut boxed: Vec<Box<dyn Server>> = Vec::new();
    for i in 0..n {
        let s = block_on(taskchampion::verif::cloud::VerifCloudServer::new(store, i, b"sec".to_vec())).expect("CloudServer::new");
        let rc = Rc::new(RefCell::new(s));
        raw.push(rc.clone());
        boxed.push(Box::new(CloudBox(rc)));
    }
    (raw, boxed)
}

pub fn value_string(v: &Value) -> Option<String> {
    match v {
        Value::Null => None,
        Value::String(s) => Some(s.clone()),
        Value::Object(o) => {
            let id = o["id"].as_i64().unwrap_or(0);
            let len = o["len"].as_u64().unwrap_or(8) as usize;
            let mut s = format!("v{id:04}_");
            while s.len() < len {
                s.push('x');
            }
            Some(s)
        }
        other => Some(other.to_string()),
    }
}

pub fn show_string(s: &str) -> Value {
    // inverse of value_string for the generated form
    if let Some(rest) = s.strip_prefix('v') {
        if let Some(pos) = rest.find('_') {
            if let Ok(id) = rest[..pos].parse::<i64>() {
                if rest[pos + 1..].bytes().all(|b| b == b'x') {
                    return json!({"id": id, "len": s.len()});
                }
            }
        }
    }
    Value::String(s.to_string())
}

pub fn ts_of(v: &Value) -> DateTime<Utc> {
    let secs = v.as_i64().unwrap_or(0);
    DateTime::from_timestamp(secs, 0).expect("timestamp in range")
}

type Tasks = BTreeMap<u128, BTreeMap<String, String>>;

pub fn tasks_json(t: &Tasks) -> Value {
    let mut m = serde_json::Map::new();
    for (u, tm) in t {
        let mut mm = serde_json::Map::new();
        for (k, v) in tm {
            mm.insert(k.clone(), show_string(v));
        }
        m.insert(u.to_string(), Value::Object(mm));
    }
    Value::Object(m)
}

pub fn replica_tasks(rep: &mut Replica<InMemoryStorage>) -> Tasks {
    let mut out = Tasks::new();
    for (u, td) in block_on(rep.all_task_data()).expect("all_task_data") {
        let mut tm = BTreeMap::new();
        for (k, v) in td.iter() {
            tm.insert(k.clone(), v.clone());
        }
        out.insert(num_of(u), tm);
    }
    out
}

/// Build the operations of one commit against the replica's current state (old values are what the
/// replica really holds, as an application using TaskData would record them).
pub fn build_ops(rep: &mut Replica<InMemoryStorage>, descs: &[Value]) -> Operations {
    let mut scratch = replica_tasks(rep);
    let mut ops = Operations::new();
    for d in descs {
        let kind = d["op"].as_str().unwrap();
        if kind == "undopoint" {
            ops.push(Operation::UndoPoint);
            continue;
        }
        let un = d["uuid"].as_u64().unwrap();
        let uuid = uuid_of(un);
        match kind {
            "create" => {
                ops.push(Operation::Create { uuid });
                scratch.entry(un as u128).or_default();
            }
            "delete" => {
                let old = scratch.remove(&(un as u128)).unwrap_or_default();
                let old_task = if d.get("old_task").is_some() {
                    d["old_task"]
                        .as_object()
                        .unwrap()
                        .iter()
                        .map(|(k, v)| (k.clone(), value_string(v).unwrap()))
                        .collect()
                } else {
                    old.into_iter().collect()
                };
                ops.push(Operation::Delete { uuid, old_task });
            }
            "update" => {
                let prop = d["prop"].as_str().unwrap().to_string();
                let value = value_string(&d["value"]);
                let old_value = if d.get("old_value").is_some() {
                    value_string(&d["old_value"])
                } else {
                    scratch.get(&(un as u128)).and_then(|t| t.get(&prop).cloned())
                };
                if let Some(t) = scratch.get_mut(&(un as u128)) {
                    match &value {
                        Some(v) => {
                            t.insert(prop.clone(), v.clone());
                        }
                        None => {
                            t.remove(&prop);
                        }
                    }
                }
                ops.push(Operation::Update {
                    uuid,
                    property: prop,
                    old_value,
                    value,
                    timestamp: ts_of(&d["ts"]),
                });
            }
            _ => panic!("unknown op kind {kind}"),
        }
    }
    ops
}

/// Reference semantics of the documented operation rules, applied to the JSON form of a version.
/// Anything that is not in the documented format is skipped (and shows up as a difference).
pub fn apply_version_json(tasks: &mut Tasks, version: &Value) {
    fn uuid_of_field(v: &Value) -> Option<u128> {
        v.get("uuid").and_then(|u| u.as_str()).and_then(|s| Uuid::parse_str(s).ok()).map(|u| u.as_u128())
    }
    for op in version.get("operations").and_then(|o| o.as_array()).cloned().unwrap_or_default() {
        if let Some(c) = op.get("Create") {
            if let Some(u) = uuid_of_field(c) {
                tasks.entry(u).or_default();
            }
        } else if let Some(d) = op.get("Delete") {
            if let Some(u) = uuid_of_field(d) {
                tasks.remove(&u);
            }
        } else if let Some(up) = op.get("Update") {
            let (Some(u), Some(p)) = (uuid_of_field(up), up.get("property").and_then(|p| p.as_str())) else {
                continue;
            };
            if let Some(t) = tasks.get_mut(&u) {
                match up.get("value").and_then(|v| v.as_str()) {
                    Some(v) => {
                        t.insert(p.to_string(), v.to_string());
                    }
                    None => {
                        t.remove(p);
                    }
                }
            }
        }
    }
}

fn abbreviate(v: &Value) -> Value {
    match v {
        Value::String(s) => show_string(s),
        Value::Array(a) => Value::Array(a.iter().map(abbreviate).collect()),
        Value::Object(o) => Value::Object(o.iter().map(|(k, x)| (k.clone(), abbreviate(x))).collect()),
        other => other.clone(),
    }
}

fn op_json(op: &Operation) -> Value {
    match op {
        Operation::Create { uuid } => json!({"op": "create", "uuid": num_of(*uuid) as u64}),
        Operation::Delete { uuid, old_task } => {
            let mut m = serde_json::Map::new();
            let sorted: BTreeMap<_, _> = old_task.iter().collect();
            for (k, v) in sorted {
                m.insert(k.clone(), show_string(v));
            }
            json!({"op": "delete", "uuid": num_of(*uuid) as u64, "old_task": m})
        }
        Operation::Update {
            uuid,
            property,
            old_value,
            value,
            timestamp,
        } => json!({"op": "update", "uuid": num_of(*uuid) as u64, "prop": property,
            "old_value": old_value.as_ref().map(|s| show_string(s)),
            "value": value.as_ref().map(|s| show_string(s)), "ts": timestamp.timestamp()}),
        Operation::UndoPoint => json!({"op": "undopoint"}),
    }
}

fn arm(plans: &[std::sync::Arc<std::sync::Mutex<crate::faulty::FaultPlan>>], r: usize, step: &Value) {
    if let Some(f) = step.get("fault") {
        if f["layer"].as_str() == Some("storage") {
            let mut p = plans[r].lock().unwrap();
            p.armed = true;
            p.count = 0;
            p.fired = None;
            p.fail_at = f["index"].as_u64().unwrap();
            p.after = f["kind"].as_str() == Some("err_after");
        }
    }
}

fn disarm(plans: &[std::sync::Arc<std::sync::Mutex<crate::faulty::FaultPlan>>], r: usize) -> Option<String> {
    let mut p = plans[r].lock().unwrap();
    p.armed = false;
    p.fired.take()
}

fn dump_replica(rep: &mut Replica<InMemoryStorage>) -> Value {
    let tasks = replica_tasks(rep);
    let ws = block_on(rep.working_set()).expect("working_set");
    let mut wsv = Vec::new();
    for i in 0..=ws.largest_index() {
        wsv.push(ws.by_index(i).map(|u| num_of(u) as u64));
    }
    let nops = block_on(rep.num_local_operations()).unwrap_or(0);
    let nundo = block_on(rep.num_undo_points()).unwrap_or(0);
    let undo_ops = block_on(rep.get_undo_operations()).map(|o| o.iter().map(op_json).collect::<Vec<_>>()).unwrap_or_default();
    json!({"tasks": tasks_json(&tasks), "working_set": wsv, "unsynced": nops, "undo_points": nundo, "undo_ops": undo_ops})
}

pub fn run(scn: &Value) -> Value {
    let nrep = scn["replicas"].as_u64().unwrap_or(1) as usize;
    let st = Rc::new(RefCell::new(ServerState::default()));
    if let Some(u) = scn.get("urgency").and_then(|v| v.as_array()) {
        st.borrow_mut().urgency = u.iter().map(|x| x.as_u64().unwrap_or(0)).collect();
    }
    if let Some(f) = scn.get("faults").and_then(|v| v.as_array()) {
        st.borrow_mut().faults = f
            .iter()
            .map(|x| (x["req"].as_u64().unwrap(), x["kind"].as_str().unwrap().to_string()))
            .collect();
    }
    // versions written by another implementation: raw documents put on the reference server's chain before anything runs
    if let Some(pre) = scn.get("preload").and_then(|v| v.as_array()) {
        let mut stm = st.borrow_mut();
        for text in pre {
            let parent = stm.chain.last().map(|v| v.1).unwrap_or(Uuid::nil());
            stm.nver += 1;
            let vid = uuid_of(1000 + stm.nver);
            stm.chain.push((parent, vid, text.as_str().unwrap_or("").as_bytes().to_vec()));
        }
    }
    let storages: Vec<InMemoryStorage> = (0..nrep).map(|_| InMemoryStorage::new()).collect();
    let plans: Vec<_> = storages.iter().map(|s| s.plan.clone()).collect();
    let mut reps: Vec<Replica<InMemoryStorage>> = storages.into_iter().map(Replica::new).collect();
    let mut servers: Vec<Box<dyn Server>> = (0..nrep)
        .map(|i| {
            Box::new(RefServer {
                st: st.clone(),
                client: i,
            }) as Box<dyn Server>
        })
        .collect();
    // object-store mode: every replica talks to the real CloudServer over one shared in-memory store
    let cloud = scn.get("server").and_then(|s| s.as_str()) == Some("cloud");
    let cstore = taskchampion::verif::cloud::MemStore::new(2_000_000_000, 100);
    let mut craw = Vec::new();
    if cloud {
        let (raw, boxed) = cloud_handles(&cstore, nrep);
        craw = raw;
        servers = boxed;
    }
    // local mode: every replica talks to the real LocalServer (SQLite file) through its own handle on one directory
    let local = scn.get("server").and_then(|s| s.as_str()) == Some("local");
    let ldir = std::path::PathBuf::from(format!(
        "{}/tc-replay-local-{}-{}",
        if std::path::Path::new("/dev/shm").is_dir() { "/dev/shm" } else { "/tmp" },
        std::process::id(),
        Uuid::new_v4().as_simple()
    ));
    let local_handles = |n: usize| -> Vec<Box<dyn Server>> {
        (0..n)
            .map(|_| {
                block_on(taskchampion::ServerConfig::Local { server_dir: ldir.clone() }.into_server()).expect("LocalServer::new")
            })
            .collect()
    };
    if local {
        std::fs::create_dir_all(&ldir).expect("scratch dir");
        servers = local_handles(nrep);
    }
    let mut results = Vec::new();
    let mut saved_undo: BTreeMap<usize, Operations> = BTreeMap::new();
    for step in scn["steps"].as_array().cloned().unwrap_or_default() {
        if let Some(r) = step.get("commit").and_then(|v| v.as_u64()) {
            let r = r as usize;
            let ops = build_ops(&mut reps[r], step["ops"].as_array().unwrap());
            arm(&plans, r, &step);
            let res = block_on(reps[r].commit_operations(ops));
            let fired = disarm(&plans, r);
            results.push(match res {
                Ok(()) => json!({"ok": true, "storage_fault_fired": fired}),
                Err(e) => json!({"err": e.to_string(), "storage_fault_fired": fired}),
            });
        } else if step.get("new_handles").is_some() {
            if cloud {
                let (raw, boxed) = cloud_handles(&cstore, nrep);
                craw = raw;
                servers = boxed;
            }
            if local {
                servers = local_handles(nrep);
            }
            results.push(json!({"new_handles": true}));
        } else if let Some(r) = step.get("sync").and_then(|v| v.as_u64()) {
            let r = r as usize;
            let avoid = step.get("avoid_snapshots").and_then(|v| v.as_bool()).unwrap_or(false);
            let n0 = st.borrow().chain.len();
            if cloud {
                // no implicit cleanup unless the server itself asks for one during this sync
                craw[r].borrow_mut().set_cleanup_probability(0);
                let names: Vec<String> = cstore.dump().into_iter().map(|o| o.0).collect();
                let keep: Vec<&str> = names.iter().map(|s| s.as_str()).collect();
                cstore.clear_except(&keep);
                if let Some(f) = step.get("fault") {
                    if f["layer"].as_str() == Some("service") {
                        cstore.add_fault(r, f["nth"].as_u64().unwrap_or(0), f["how"].as_str().unwrap_or("before"));
                    }
                }
            }
            if let Some(f) = step.get("fault") {
                if f["layer"].as_str() == Some("service") {
                } else if f["layer"].as_str() == Some("local") {
                    taskchampion::verif::failpoint::arm(f["point"].as_str().unwrap_or(""), f["nth"].as_u64().unwrap_or(1) as u32);
                } else if f["layer"].as_str() == Some("storage") {
                    let mut p = plans[r].lock().unwrap();
                    p.armed = true;
                    p.count = 0;
                    p.fired = None;
                    p.fail_at = f["index"].as_u64().unwrap();
                    p.after = f["kind"].as_str() == Some("err_after");
                } else {
                    let req = f["index"].as_u64().unwrap();
                    st.borrow_mut().faults.push((req, f["kind"].as_str().unwrap().to_string()));
                }
            }
            let res = block_on(reps[r].sync(&mut servers[r], avoid));
            let fp_fired = step.get("fault").map(|f| f["layer"].as_str() == Some("local")).unwrap_or(false)
                && !taskchampion::verif::failpoint::is_armed();
            taskchampion::verif::failpoint::disarm();
            let fired = {
                let mut p = plans[r].lock().unwrap();
                p.armed = false;
                p.fired.take()
            };
            let n1 = st.borrow().chain.len();
            results.push(match res {
                Ok(()) => json!({"ok": true, "versions_added": n1 - n0, "storage_fault_fired": fired, "failpoint_fired": fp_fired}),
                Err(e) => json!({"err": format!("{e:#}"), "versions_added": n1 - n0, "storage_fault_fired": fired, "failpoint_fired": fp_fired}),
            });
        } else if let Some(group) = step.get("race").and_then(|v| v.as_array()) {
            // concurrent syncs: `race` lists the replicas, `schedule` the order in which their
            // pending server requests are served
            let ids: Vec<usize> = group.iter().map(|x| x.as_u64().unwrap() as usize).collect();
            let schedule: Vec<usize> = step["schedule"]
                .as_array()
                .map(|a| a.iter().map(|x| x.as_u64().unwrap() as usize).collect())
                .unwrap_or_default();
            st.borrow_mut().gated = true;
            let mut outcomes: BTreeMap<usize, Value> = BTreeMap::new();
            {
                // split borrows: each future owns disjoint elements
                let mut futs: Vec<(usize, Pin<Box<dyn Future<Output = anyhow::Result<()>> + '_>>)> = Vec::new();
                let mut rep_refs: Vec<Option<&mut Replica<InMemoryStorage>>> = reps.iter_mut().map(Some).collect();
                let mut srv_refs: Vec<Option<&mut Box<dyn Server>>> = servers.iter_mut().map(Some).collect();
                for &i in &ids {
                    let rep = rep_refs[i].take().unwrap();
                    let srv = srv_refs[i].take().unwrap();
                    futs.push((i, Box::pin(async move { rep.sync(srv, false).await.map_err(anyhow::Error::from) })));
                }
                // start every future: runs up to its first server request
                for (i, f) in futs.iter_mut() {
                    if let Poll::Ready(r) = poll_once(f.as_mut()) {
                        outcomes.insert(*i, res_json(r));
                    }
                }
                let mut sched = schedule.into_iter();
                loop {
                    let live: Vec<usize> = futs.iter().map(|(i, _)| *i).filter(|i| !outcomes.contains_key(i)).collect();
                    if live.is_empty() {
                        break;
                    }
                    let pick = match sched.next() {
                        Some(p) if live.contains(&p) => p,
                        Some(_) => continue,
                        None => live[0],
                    };
                    st.borrow_mut().turn = Some(pick);
                    for (i, f) in futs.iter_mut() {
                        if *i == pick {
                            if let Poll::Ready(r) = poll_once(f.as_mut()) {
                                outcomes.insert(*i, res_json(r));
                            }
                        }
                    }
                }
            }
            st.borrow_mut().gated = false;
            st.borrow_mut().turn = None;
            results.push(json!({"race": outcomes}));
        } else if let Some(r) = step.get("get_undo").and_then(|v| v.as_u64()) {
            let r = r as usize;
            let ops = block_on(reps[r].get_undo_operations()).expect("get_undo_operations");
            results.push(json!({"undo_ops": ops.iter().map(op_json).collect::<Vec<_>>()}));
            saved_undo.insert(r, ops);
        } else if let Some(r) = step.get("undo").and_then(|v| v.as_u64()) {
            let r = r as usize;
            let ops = match saved_undo.get(&r) {
                Some(o) if step.get("use_saved").and_then(|v| v.as_bool()).unwrap_or(false) => o.clone(),
                _ => block_on(reps[r].get_undo_operations()).expect("get_undo_operations"),
            };
            arm(&plans, r, &step);
            let res = block_on(reps[r].commit_reversed_operations(ops));
            let fired = disarm(&plans, r);
            results.push(match res {
                Ok(b) => json!({"ok": true, "undone": b, "storage_fault_fired": fired}),
                Err(e) => json!({"err": e.to_string(), "storage_fault_fired": fired}),
            });
        } else if let Some(r) = step.get("rebuild").and_then(|v| v.as_u64()) {
            let r = r as usize;
            let renumber = step["renumber"].as_bool().unwrap_or(false);
            arm(&plans, r, &step);
            let res = block_on(reps[r].rebuild_working_set(renumber));
            let fired = disarm(&plans, r);
            results.push(match res {
                Ok(()) => json!({"ok": true, "storage_fault_fired": fired}),
                Err(e) => json!({"err": e.to_string(), "storage_fault_fired": fired}),
            });
        } else if let Some(r) = step.get("dump").and_then(|v| v.as_u64()) {
            let r = r as usize;
            results.push(json!({"dump": dump_replica(&mut reps[r])}));
        } else if let Some(r) = step.get("expire").and_then(|v| v.as_u64()) {
            let r = r as usize;
            let res = block_on(reps[r].expire_tasks());
            results.push(match res {
                Ok(()) => json!({"ok": true}),
                Err(e) => json!({"err": e.to_string()}),
            });
        } else {
            results.push(json!({"skipped": step}));
        }
    }
    // final report
    let mut reps_out = Vec::new();
    for rep in reps.iter_mut() {
        reps_out.push(dump_replica(rep));
    }
    if cloud {
        // the chain as served to a fresh client
        let names: Vec<String> = cstore.dump().into_iter().map(|o| o.0).collect();
        let keep: Vec<&str> = names.iter().map(|s| s.as_str()).collect();
        cstore.clear_except(&keep);
        let mut fresh = block_on(taskchampion::verif::cloud::VerifCloudServer::new(&cstore, nrep, b"sec".to_vec())).expect("CloudServer::new");
        let mut chain_state = Tasks::new();
        let mut versions = Vec::new();
        let mut parent = Uuid::nil();
        let mut walk_err = Value::Null;
        for _ in 0..64 {
            match block_on(fresh.get_child_version(parent)) {
                Ok(GetVersionResult::Version {
                    version_id,
                    history_segment,
                    ..
                }) => {
                    let doc: Value = serde_json::from_slice(&history_segment).unwrap_or(Value::Null);
                    apply_version_json(&mut chain_state, &doc);
                    versions.push(json!({"doc": abbreviate(&doc), "bytes": history_segment.len()}));
                    parent = version_id;
                }
                Ok(GetVersionResult::NoSuchVersion) => break,
                Err(e) => {
                    walk_err = json!(e.to_string());
                    break;
                }
            }
        }
        let latest = cstore
            .dump()
            .into_iter()
            .find(|o| o.0 == "latest")
            .map(|o| String::from_utf8_lossy(&o.1).to_string());
        let end = if parent.is_nil() { None } else { Some(parent.as_simple().to_string()) };
        return json!({
            "steps": results,
            "replicas": reps_out,
            "server": {"versions": versions, "chain_state": tasks_json(&chain_state), "snapshots": [],
                       "walk_error": walk_err, "latest_is_end_of_walk": latest == end,
                       "objects": cstore.dump().len()},
        });
    }
    if local {
        // the chain as served to a fresh handle on the same directory
        let mut fresh = local_handles(1).pop().unwrap();
        let mut chain_state = Tasks::new();
        let mut versions = Vec::new();
        let mut parent = Uuid::nil();
        let mut walk_err = Value::Null;
        for _ in 0..64 {
            match block_on(fresh.get_child_version(parent)) {
                Ok(GetVersionResult::Version { version_id, history_segment, .. }) => {
                    let doc: Value = serde_json::from_slice(&history_segment).unwrap_or(Value::Null);
                    apply_version_json(&mut chain_state, &doc);
                    versions.push(json!({"doc": abbreviate(&doc), "bytes": history_segment.len()}));
                    parent = version_id;
                }
                Ok(GetVersionResult::NoSuchVersion) => break,
                Err(e) => {
                    walk_err = json!(e.to_string());
                    break;
                }
            }
        }
        drop(fresh);
        drop(servers);
        let _ = std::fs::remove_dir_all(&ldir);
        return json!({
            "steps": results,
            "replicas": reps_out,
            "server": {"versions": versions, "chain_state": tasks_json(&chain_state), "snapshots": [],
                       "walk_error": walk_err, "latest_is_end_of_walk": Value::Null},
        });
    }
    let stb = st.borrow();
    let mut chain_state = Tasks::new();
    let mut versions = Vec::new();
    for (p, v, data) in stb.chain.iter() {
        let doc: Value = serde_json::from_slice(data).unwrap_or(Value::Null);
        apply_version_json(&mut chain_state, &doc);
        versions.push(json!({"parent": num_of(*p) as u64, "id": num_of(*v) as u64, "doc": abbreviate(&doc), "bytes": data.len()}));
    }
    let mut snaps_out = Vec::new();
    for (v, d, n) in stb.snapshots.iter() {
        // decode the snapshot (zlib + JSON object uuid -> properties) and replay the chain up to its version
        let mut text = String::new();
        let decoded: Value = {
            use std::io::Read;
            let mut dec = flate2::read::ZlibDecoder::new(&d[..]);
            match dec.read_to_string(&mut text) {
                Ok(_) => serde_json::from_str(&text).unwrap_or(Value::Null),
                Err(_) => Value::Null,
            }
        };
        let mut snap_tasks = Tasks::new();
        if let Some(o) = decoded.as_object() {
            for (k, tm) in o {
                let u = Uuid::parse_str(k).map(|u| u.as_u128()).unwrap_or(u128::MAX);
                let mut m = BTreeMap::new();
                if let Some(tmo) = tm.as_object() {
                    for (pk, pv) in tmo {
                        m.insert(pk.clone(), pv.as_str().unwrap_or("<non-string>").to_string());
                    }
                }
                snap_tasks.insert(u, m);
            }
        }
        let mut at = Tasks::new();
        for (_, cv, data) in stb.chain.iter() {
            let doc: Value = serde_json::from_slice(data).unwrap_or(Value::Null);
            apply_version_json(&mut at, &doc);
            if cv == v {
                break;
            }
        }
        snaps_out.push(json!({"version": num_of(*v) as u64, "bytes": d.len(), "chain_len": n,
            "is_object": decoded.is_object(), "tasks": tasks_json(&snap_tasks), "chain_state_at_version": tasks_json(&at)}));
    }
    json!({
        "steps": results,
        "replicas": reps_out,
        "server": {"versions": versions, "chain_state": tasks_json(&chain_state),
                   "snapshots": snaps_out,
                   "requests": stb.log.len()},
    })
}

fn res_json(r: anyhow::Result<()>) -> Value {
    match r {
        Ok(()) => json!({"ok": true}),
        Err(e) => json!({"err": format!("{e:#}")}),
    }
}
