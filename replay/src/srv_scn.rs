//! "srvcalls" scenarios: a sequence of `Server` trait calls on several handles of one backend
//! (currently the local on-disk server, opened through the public `ServerConfig`), printing every
//! result; version ids are referred to by the index of the call that returned them.
use serde_json::{json, Value};
use taskchampion::server::{AddVersionResult, GetVersionResult, Server};
use taskchampion::{ServerConfig, Uuid};

use crate::block_on;

fn hex(u: Uuid) -> String {
    u.as_simple().to_string()
}

pub fn run(scn: &Value) -> Value {
    let backend = scn["backend"].as_str().unwrap_or("local");
    if backend == "http" {
        return crate::http_scn::run(scn);
    }
    if backend != "local" {
        return json!({"error": format!("unknown backend {backend}")});
    }
    let dir = std::path::PathBuf::from(format!(
        "{}/tc-replay-srv-{}-{}",
        if std::path::Path::new("/dev/shm").is_dir() { "/dev/shm" } else { "/tmp" },
        std::process::id(),
        Uuid::new_v4().as_simple()
    ));
    std::fs::create_dir_all(&dir).expect("scratch dir");
    let open = || -> Box<dyn Server> {
        block_on(ServerConfig::Local { server_dir: dir.clone() }.into_server()).expect("LocalServer::new")
    };
    let nh = scn["handles"].as_u64().unwrap_or(1) as usize;
    let mut handles: Vec<Box<dyn Server>> = (0..nh).map(|_| open()).collect();
    let mut minted: Vec<Option<Uuid>> = Vec::new();
    let mut results = Vec::new();
    let uuid_of = |v: &Value, minted: &Vec<Option<Uuid>>| -> Uuid {
        if let Some(k) = v.get("ref").and_then(|k| k.as_u64()) {
            minted.get(k as usize).cloned().flatten().unwrap_or(Uuid::max())
        } else if let Some(s) = v.get("lit").and_then(|s| s.as_str()) {
            Uuid::from_u128(s.parse::<u128>().unwrap_or(0))
        } else {
            Uuid::nil()
        }
    };
    for call in scn["calls"].as_array().cloned().unwrap_or_default() {
        let h = call["h"].as_u64().unwrap_or(0) as usize;
        let mut mint = None;
        let r = match call["call"].as_str().unwrap_or("") {
            "add_version" => {
                let parent = uuid_of(&call["parent"], &minted);
                let payload: Vec<u8> = call["payload"].as_array().map(|a| a.iter().map(|b| b.as_u64().unwrap_or(0) as u8).collect()).unwrap_or_default();
                match block_on(handles[h].add_version(parent, payload)) {
                    Ok((AddVersionResult::Ok(v), _)) => {
                        mint = Some(v);
                        json!({"accepted": hex(v)})
                    }
                    Ok((AddVersionResult::ExpectedParentVersion(v), _)) => json!({"expected": hex(v)}),
                    Err(e) => json!({"err": e.to_string()}),
                }
            }
            "get_child_version" => {
                let parent = uuid_of(&call["parent"], &minted);
                match block_on(handles[h].get_child_version(parent)) {
                    Ok(GetVersionResult::Version { version_id, parent_version_id, history_segment }) => {
                        json!({"version": {"id": hex(version_id), "parent": hex(parent_version_id), "bytes": history_segment}})
                    }
                    Ok(GetVersionResult::NoSuchVersion) => json!("none"),
                    Err(e) => json!({"err": e.to_string()}),
                }
            }
            "get_snapshot" => match block_on(handles[h].get_snapshot()) {
                Ok(None) => json!("none"),
                Ok(Some((v, d))) => json!({"snapshot": {"version": hex(v), "bytes": d}}),
                Err(e) => json!({"err": e.to_string()}),
            },
            "reopen" => {
                handles[h] = open();
                json!("reopened")
            }
            other => json!({"error": format!("unknown call {other}")}),
        };
        minted.push(mint);
        results.push(r);
    }
    // the chain as served to a fresh handle, from the given start
    let mut walk = Vec::new();
    let mut fresh = open();
    let mut parent = uuid_of(&scn["walk_from"], &minted);
    for _ in 0..64 {
        match block_on(fresh.get_child_version(parent)) {
            Ok(GetVersionResult::Version { version_id, parent_version_id, history_segment }) => {
                walk.push(json!({"id": hex(version_id), "parent": hex(parent_version_id), "bytes": history_segment}));
                parent = version_id;
            }
            Ok(GetVersionResult::NoSuchVersion) => break,
            Err(e) => {
                walk.push(json!({"err": e.to_string()}));
                break;
            }
        }
    }
    drop(fresh);
    drop(handles);
    let _ = std::fs::remove_dir_all(&dir);
    json!({"results": results, "walk": walk})
}
