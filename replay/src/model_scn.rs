//! scenarios for the task-model / working-set / storage properties
use serde_json::{json, Value};
use taskchampion::storage::inmemory::InMemoryStorage;
use taskchampion::{Operation, Operations, Replica};

use crate::sync_scn::ts_of;
use crate::{block_on, num_of, uuid_of};

pub fn run(scn: &Value) -> Value {
    match scn["what"].as_str().unwrap_or("") {
        "expire" => expire(scn),
        other => json!({"error": format!("unknown model scenario {other}")}),
    }
}

/// tasks with given status / modified strings, then Replica::expire_tasks with the real clock
fn expire(scn: &Value) -> Value {
    let mut rep = Replica::new(InMemoryStorage::new());
    let mut ops = Operations::new();
    let mut ids = Vec::new();
    for t in scn["tasks"].as_array().cloned().unwrap_or_default() {
        let un = t["uuid"].as_u64().unwrap();
        let uuid = uuid_of(un);
        ids.push(un);
        ops.push(Operation::Create { uuid });
        for key in ["status", "modified"] {
            if let Some(v) = t[key].as_str() {
                ops.push(Operation::Update {
                    uuid,
                    property: key.to_string(),
                    old_value: None,
                    value: Some(v.to_string()),
                    timestamp: ts_of(&json!(0)),
                });
            }
        }
        ops.push(Operation::Update {
            uuid,
            property: "description".into(),
            old_value: None,
            value: Some("x".into()),
            timestamp: ts_of(&json!(0)),
        });
    }
    block_on(rep.commit_operations(ops)).expect("commit");
    let n0 = block_on(rep.num_local_operations()).unwrap();
    let res = block_on(rep.expire_tasks());
    let n1 = block_on(rep.num_local_operations()).unwrap();
    let left: Vec<u64> = block_on(rep.all_task_uuids())
        .unwrap()
        .into_iter()
        .map(|u| num_of(u) as u64)
        .collect();
    let mut purged: Vec<u64> = ids.into_iter().filter(|u| !left.contains(u)).collect();
    purged.sort();
    json!({"ok": res.is_ok(), "err": res.err().map(|e| e.to_string()), "purged": purged, "ops_recorded": n1 - n0,
           "real_now": taskchampion::chrono::Utc::now().timestamp()})
}
