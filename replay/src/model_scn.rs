//! scenarios for the task-model / working-set / storage properties
use serde_json::{json, Value};
use taskchampion::storage::inmemory::InMemoryStorage;
use taskchampion::{Operation, Operations, Replica};

use crate::sync_scn::ts_of;
use crate::{block_on, num_of, uuid_of};

pub fn run(scn: &Value) -> Value {
    match scn["what"].as_str().unwrap_or("") {
        "expire" => expire(scn),
        "storage_calls" => storage_calls(scn),
        "task_readers" => task_readers(scn),
        "task_mutators" => task_mutators(scn),
        other => json!({"error": format!("unknown model scenario {other}")}),
    }
}

/// tasks with given status / modified strings, then Replica::expire_tasks with the real clock
fn expire(scn: &Value) -> Value {
    let mut rep = Replica::new(InMemoryStorage::new());
    let mut ops = Operations::new();
    let mut ids = Vec::new();
    // the crate reads the real clock: canonical integer timestamps are shifted by (real now - scenario now) so that
    // every age is exactly the one of the solver model, however long after the model the replay runs
    let real_now = std::time::SystemTime::now()
        .duration_since(std::time::UNIX_EPOCH)
        .map(|d| d.as_secs() as i64)
        .unwrap_or(0);
    let shift = scn.get("now").and_then(|n| n.as_i64()).map(|n| real_now - n).unwrap_or(0);
    for t in scn["tasks"].as_array().cloned().unwrap_or_default() {
        let un = t["uuid"].as_u64().unwrap();
        let uuid = uuid_of(un);
        ids.push(un);
        ops.push(Operation::Create { uuid });
        for key in ["status", "modified"] {
            if let Some(v) = t[key].as_str() {
                let mut v = v.to_string();
                if key == "modified" {
                    if let Ok(n) = v.parse::<i64>() {
                        if n.to_string() == v && n.abs() < 1_000_000_000_000 {
                            v = (n + shift).to_string();
                        }
                    }
                }
                let v = v.as_str();
                ops.push(Operation::Update {
                    uuid,
                    property: key.to_string(),
                    old_value: None,
                    value: Some(v.to_string()),
                    timestamp: ts_of(&json!(0)),
                });
            }
        }
        ops.push(Operation::Update {
            uuid,
            property: "description".into(),
            old_value: None,
            value: Some("x".into()),
            timestamp: ts_of(&json!(0)),
        });
    }
    block_on(rep.commit_operations(ops)).expect("commit");
    let n0 = block_on(rep.num_local_operations()).unwrap();
    let res = block_on(rep.expire_tasks());
    let n1 = block_on(rep.num_local_operations()).unwrap();
    let left: Vec<u64> = block_on(rep.all_task_uuids())
        .unwrap()
        .into_iter()
        .map(|u| num_of(u) as u64)
        .collect();
    let mut purged: Vec<u64> = ids.into_iter().filter(|u| !left.contains(u)).collect();
    purged.sort();
    json!({"ok": res.is_ok(), "err": res.err().map(|e| e.to_string()), "purged": purged, "ops_recorded": n1 - n0,
           "real_now": taskchampion::chrono::Utc::now().timestamp()})
}

// ----------------------------------------------------------------------------- storage call sequences

use std::collections::BTreeMap;
use taskchampion::storage::{AccessMode, Storage, StorageTxn, TaskMap};
use taskchampion::SqliteStorage;

fn taskmap_of(v: &Value) -> TaskMap {
    let mut m = TaskMap::new();
    if let Some(o) = v.as_object() {
        for (k, x) in o {
            if let Some(s) = crate::sync_scn::value_string(x) {
                m.insert(k.clone(), s);
            }
        }
    }
    m
}

fn taskmap_json(m: &TaskMap) -> Value {
    let sorted: BTreeMap<_, _> = m.iter().collect();
    let mut o = serde_json::Map::new();
    for (k, v) in sorted {
        o.insert(k.clone(), crate::sync_scn::show_string(v));
    }
    Value::Object(o)
}

fn op_of(d: &Value) -> Operation {
    match d["op"].as_str().unwrap() {
        "create" => Operation::Create { uuid: uuid_of(d["uuid"].as_u64().unwrap()) },
        "delete" => Operation::Delete { uuid: uuid_of(d["uuid"].as_u64().unwrap()), old_task: taskmap_of(&d["old_task"]) },
        "update" => Operation::Update {
            uuid: uuid_of(d["uuid"].as_u64().unwrap()),
            property: d["prop"].as_str().unwrap().to_string(),
            old_value: crate::sync_scn::value_string(&d["old_value"]),
            value: crate::sync_scn::value_string(&d["value"]),
            timestamp: ts_of(&d["ts"]),
        },
        _ => Operation::UndoPoint,
    }
}

fn op_json(op: &Operation) -> Value {
    match op {
        Operation::Create { uuid } => json!({"op": "create", "uuid": num_of(*uuid) as u64}),
        Operation::Delete { uuid, old_task } => json!({"op": "delete", "uuid": num_of(*uuid) as u64, "old_task": taskmap_json(old_task)}),
        Operation::Update { uuid, property, old_value, value, timestamp } => json!({"op": "update", "uuid": num_of(*uuid) as u64,
            "prop": property, "old_value": old_value.as_ref().map(|s| crate::sync_scn::show_string(s)),
            "value": value.as_ref().map(|s| crate::sync_scn::show_string(s)), "ts": timestamp.timestamp()}),
        Operation::UndoPoint => json!({"op": "undopoint"}),
    }
}

fn tasks_list_json(mut v: Vec<(taskchampion::Uuid, TaskMap)>) -> Value {
    v.sort_by_key(|(u, _)| *u);
    Value::Array(v.iter().map(|(u, m)| json!([num_of(*u) as u64, taskmap_json(m)])).collect())
}

fn res<T>(r: Result<T, taskchampion::Error>, f: impl FnOnce(T) -> Value) -> Value {
    match r {
        Ok(v) => json!({"ok": f(v)}),
        Err(_) => json!({"err": true}),
    }
}

fn run_calls<S: Storage>(storage: &mut S, calls: &[Value]) -> Vec<Value> {
    let mut out = Vec::new();
    let mut i = 0;
    while i <= calls.len() {
        // one transaction per segment between commit/abandon
        let mut txn = block_on(storage.txn()).expect("txn");
        let mut reopened = false;
        while i < calls.len() {
            let c = &calls[i];
            i += 1;
            let name = c[0].as_str().unwrap();
            let u = |k: usize| uuid_of(c[k].as_u64().unwrap());
            let r = match name {
                "get_task" => res(block_on(txn.get_task(u(1))), |o| o.map(|m| taskmap_json(&m)).unwrap_or(Value::Null)),
                "create_task" => res(block_on(txn.create_task(u(1))), |b| json!(b)),
                "set_task" => res(block_on(txn.set_task(u(1), taskmap_of(&c[2]))), |_| json!(null)),
                "delete_task" => res(block_on(txn.delete_task(u(1))), |b| json!(b)),
                "all_tasks" => res(block_on(txn.all_tasks()), tasks_list_json),
                "all_task_uuids" => res(block_on(txn.all_task_uuids()), |mut v| { v.sort(); json!(v.iter().map(|x| num_of(*x) as u64).collect::<Vec<_>>()) }),
                "base_version" => res(block_on(txn.base_version()), |v| json!(num_of(v) as u64)),
                "set_base_version" => res(block_on(txn.set_base_version(u(1))), |_| json!(null)),
                "add_operation" => res(block_on(txn.add_operation(op_of(&c[1]))), |_| json!(null)),
                "remove_operation" => res(block_on(txn.remove_operation(op_of(&c[1]))), |_| json!(null)),
                "unsynced_operations" => res(block_on(txn.unsynced_operations()), |v| json!(v.iter().map(op_json).collect::<Vec<_>>())),
                "num_unsynced_operations" => res(block_on(txn.num_unsynced_operations()), |n| json!(n)),
                "get_task_operations" => res(block_on(txn.get_task_operations(u(1))), |v| json!(v.iter().map(op_json).collect::<Vec<_>>())),
                "sync_complete" => res(block_on(txn.sync_complete()), |_| json!(null)),
                "get_working_set" => res(block_on(txn.get_working_set()), |v| json!(v.iter().map(|x| x.map(|y| num_of(y) as u64)).collect::<Vec<_>>())),
                "add_to_working_set" => res(block_on(txn.add_to_working_set(u(1))), |n| json!(n)),
                "set_working_set_item" => res(block_on(txn.set_working_set_item(c[1].as_u64().unwrap() as usize, c[2].as_u64().map(uuid_of))), |_| json!(null)),
                "clear_working_set" => res(block_on(txn.clear_working_set()), |_| json!(null)),
                "get_pending_tasks" => res(block_on(txn.get_pending_tasks()), tasks_list_json),
                "is_empty" => res(block_on(txn.is_empty()), |b| json!(b)),
                "commit" => {
                    let r = res(block_on(txn.commit()), |_| json!(null));
                    out.push(r);
                    reopened = true;
                    break;
                }
                "abandon" => {
                    out.push(json!({"ok": null}));
                    reopened = true;
                    break;
                }
                other => json!({"unknown": other}),
            };
            out.push(r);
        }
        drop(txn);
        if !reopened {
            break;
        }
    }
    out
}

pub fn storage_calls(scn: &Value) -> Value {
    let calls = scn["calls"].as_array().cloned().unwrap_or_default();
    let mut mem = InMemoryStorage::new();
    let mem_out = run_calls(&mut mem, &calls);
    let dir = std::env::temp_dir().join(format!("tc-replay-{}-{}", std::process::id(), NEXT.fetch_add(1, std::sync::atomic::Ordering::SeqCst)));
    let _ = std::fs::create_dir_all(&dir);
    let sql_out = match block_on(SqliteStorage::new(dir.clone(), AccessMode::ReadWrite, true)) {
        Ok(mut s) => {
            let o = run_calls(&mut s, &calls);
            drop(s);
            o
        }
        Err(e) => vec![json!({"sqlite_open_failed": e.to_string()})],
    };
    let _ = std::fs::remove_dir_all(&dir);
    json!({"inmemory": mem_out, "sqlite": sql_out})
}

static NEXT: std::sync::atomic::AtomicUsize = std::sync::atomic::AtomicUsize::new(0);

// ----------------------------------------------------------------------------- task readers (C18)

fn catch<F: FnOnce() + std::panic::UnwindSafe>(name: &str, panics: &mut Vec<Value>, f: F) {
    if let Err(e) = std::panic::catch_unwind(f) {
        let msg = if let Some(s) = e.downcast_ref::<String>() {
            s.clone()
        } else if let Some(s) = e.downcast_ref::<&str>() {
            s.to_string()
        } else {
            "panic".to_string()
        };
        panics.push(json!({"reader": name, "msg": msg}));
    }
}

pub fn task_readers(scn: &Value) -> Value {
    use std::panic::AssertUnwindSafe;
    let mut rep = Replica::new(InMemoryStorage::new());
    let a = uuid_of(100);
    let b = uuid_of(200);
    let mut ops = Operations::new();
    ops.push(Operation::Create { uuid: a });
    let in_ws = scn["working_set"].as_array().map(|w| w.iter().any(|x| x.as_u64() == Some(100))).unwrap_or(false);
    if in_ws {
        // the task is numbered in the working set whatever its present status: it was pending once
        ops.push(Operation::Update { uuid: a, property: "status".into(), old_value: None, value: Some("pending".into()), timestamp: ts_of(&json!(0)) });
        block_on(rep.commit_operations(std::mem::take(&mut ops))).expect("commit");
        let has_status = scn["task"].get("status").is_some();
        if !has_status {
            ops.push(Operation::Update { uuid: a, property: "status".into(), old_value: Some("pending".into()), value: None, timestamp: ts_of(&json!(0)) });
        }
    }
    if let Some(o) = scn["task"].as_object() {
        for (k, v) in o {
            ops.push(Operation::Update {
                uuid: a,
                property: k.clone(),
                old_value: None,
                value: Some(v.as_str().unwrap_or("").to_string()),
                timestamp: ts_of(&json!(0)),
            });
        }
    }
    let other = scn["other"].as_str().unwrap_or("pending");
    if other != "missing" {
        ops.push(Operation::Create { uuid: b });
        ops.push(Operation::Update { uuid: b, property: "description".into(), old_value: None, value: Some("other".into()), timestamp: ts_of(&json!(0)) });
        if other != "no-status" {
            ops.push(Operation::Update { uuid: b, property: "status".into(), old_value: None, value: Some(other.into()), timestamp: ts_of(&json!(0)) });
        }
    }
    block_on(rep.commit_operations(ops)).expect("commit");
    let mut panics = Vec::new();
    let task = match std::panic::catch_unwind(AssertUnwindSafe(|| block_on(rep.get_task(a)))) {
        Ok(Ok(Some(t))) => t,
        Ok(other) => return json!({"error": format!("get_task: {:?}", other.map(|o| o.is_some()))}),
        Err(_) => return json!({"panics": [{"reader": "Replica::get_task", "msg": "panic"}]}),
    };
    catch("Replica::all_tasks", &mut panics, AssertUnwindSafe(|| { let _ = block_on(rep.all_tasks()); }));
    catch("Replica::pending_tasks", &mut panics, AssertUnwindSafe(|| { let _ = block_on(rep.pending_tasks()); }));
    catch("Replica::dependency_map", &mut panics, AssertUnwindSafe(|| { let _ = block_on(rep.dependency_map(true)); }));
    catch("Replica::working_set", &mut panics, AssertUnwindSafe(|| { let _ = block_on(rep.working_set()); }));
    let t = &task;
    catch("Task::get_status", &mut panics, AssertUnwindSafe(|| { let _ = t.get_status(); }));
    catch("Task::get_description", &mut panics, AssertUnwindSafe(|| { let _ = t.get_description(); }));
    catch("Task::get_entry", &mut panics, AssertUnwindSafe(|| { let _ = t.get_entry(); }));
    catch("Task::get_priority", &mut panics, AssertUnwindSafe(|| { let _ = t.get_priority(); }));
    catch("Task::get_wait", &mut panics, AssertUnwindSafe(|| { let _ = t.get_wait(); }));
    catch("Task::is_waiting", &mut panics, AssertUnwindSafe(|| { let _ = t.is_waiting(); }));
    catch("Task::is_active", &mut panics, AssertUnwindSafe(|| { let _ = t.is_active(); }));
    catch("Task::is_blocked", &mut panics, AssertUnwindSafe(|| { let _ = t.is_blocked(); }));
    catch("Task::is_blocking", &mut panics, AssertUnwindSafe(|| { let _ = t.is_blocking(); }));
    catch("Task::get_modified", &mut panics, AssertUnwindSafe(|| { let _ = t.get_modified(); }));
    catch("Task::get_due", &mut panics, AssertUnwindSafe(|| { let _ = t.get_due(); }));
    catch("Task::get_tags", &mut panics, AssertUnwindSafe(|| {
        let tags: Vec<_> = t.get_tags().collect();
        for tg in &tags {
            let _ = t.has_tag(tg);
        }
    }));
    catch("Task::get_annotations", &mut panics, AssertUnwindSafe(|| { let _ = t.get_annotations().count(); }));
    #[allow(deprecated)]
    catch("Task::get_udas", &mut panics, AssertUnwindSafe(|| { let _ = t.get_udas().count(); }));
    catch("Task::get_user_defined_attributes", &mut panics, AssertUnwindSafe(|| { let _ = t.get_user_defined_attributes().count(); }));
    catch("Task::get_dependencies", &mut panics, AssertUnwindSafe(|| { let _ = t.get_dependencies().count(); }));
    for key in ["status", "due", "wait", "entry", "modified", "start", "end", "foo", "ns.key", "tag_abc", ""] {
        catch("Task::get_value", &mut panics, AssertUnwindSafe(|| { let _ = t.get_value(key); }));
        catch("Task::get_user_defined_attribute", &mut panics, AssertUnwindSafe(|| { let _ = t.get_user_defined_attribute(key); }));
        catch("Task::get_timestamp", &mut panics, AssertUnwindSafe(|| { let _ = t.get_timestamp(key); }));
    }
    json!({"panics": panics})
}

// ----------------------------------------------------------------------------- task mutators (C19)

fn sval(v: &Value) -> Option<String> {
    match v {
        Value::Null => None,
        Value::String(s) => Some(s.clone()),
        Value::Object(o) => {
            let id = o.get("tok").or_else(|| o.get("id")).and_then(|x| x.as_i64()).unwrap_or(0);
            let len = o.get("len").and_then(|x| x.as_u64()).unwrap_or(8) as usize;
            let mut s = format!("v{id:04}_");
            while s.len() < len {
                s.push('x');
            }
            Some(s)
        }
        other => Some(other.to_string()),
    }
}

pub fn task_mutators(scn: &Value) -> Value {
    use std::collections::BTreeMap;
    use taskchampion::{Annotation, Status, Tag};
    let mut problems: Vec<Value> = Vec::new();
    let mut rep = Replica::new(InMemoryStorage::new());
    let a = uuid_of(100);
    let b = uuid_of(200);
    let exists = scn["exists"].as_bool().unwrap_or(false);
    let mut setup = Operations::new();
    setup.push(Operation::Create { uuid: b });
    setup.push(Operation::Update { uuid: b, property: "status".into(), old_value: None, value: Some("pending".into()), timestamp: ts_of(&json!(0)) });
    if exists {
        setup.push(Operation::Create { uuid: a });
        if let Some(o) = scn["prior"].as_object() {
            for (k, v) in o {
                setup.push(Operation::Update { uuid: a, property: k.clone(), old_value: None, value: sval(v), timestamp: ts_of(&json!(0)) });
            }
        }
    }
    block_on(rep.commit_operations(setup)).expect("setup commit");
    let mut ops = Operations::new();
    let mut task = if exists {
        block_on(rep.get_task(a)).expect("get_task").expect("task exists")
    } else {
        block_on(rep.create_task(a, &mut ops)).expect("create_task")
    };
    let mut before: BTreeMap<String, String> = task.clone().into_task_data().iter().map(|(k, v)| (k.clone(), v.clone())).collect();
    let mut first_mutation_done = false;
    let mut purge = false;
    let ts = |v: &Value| ts_of(v);
    for call in scn["calls"].as_array().cloned().unwrap_or_default() {
        let name = call[0].as_str().unwrap_or("");
        let n0 = ops.len();
        let mut want_err = false;
        let mut explicit_mod = false;
        let had_end = before.contains_key("end");
        let was_active = before.contains_key("start");
        let res: Result<(), taskchampion::Error> = match name {
            "set_status" => {
                let st = match call[1].as_str().unwrap_or("") {
                    "Pending" => Status::Pending,
                    "Completed" => Status::Completed,
                    "Deleted" => Status::Deleted,
                    _ => Status::Recurring,
                };
                task.set_status(st, &mut ops)
            }
            "set_description" => task.set_description(sval(&call[1]).unwrap(), &mut ops),
            "set_priority" => task.set_priority(sval(&call[1]).unwrap(), &mut ops),
            "set_entry" => task.set_entry(if call[1].is_null() { None } else { Some(ts(&call[1])) }, &mut ops),
            "set_wait" => task.set_wait(if call[1].is_null() { None } else { Some(ts(&call[1])) }, &mut ops),
            "set_due" => task.set_due(if call[1].is_null() { None } else { Some(ts(&call[1])) }, &mut ops),
            "set_modified" => {
                explicit_mod = true;
                task.set_modified(ts(&call[1]), &mut ops)
            }
            "set_value" => {
                let key = call[1].as_str().unwrap().to_string();
                explicit_mod = key == "modified";
                task.set_value(key, sval(&call[2]), &mut ops)
            }
            "start" => task.start(&mut ops),
            "stop" => task.stop(&mut ops),
            "done" => task.done(&mut ops),
            "add_tag" | "remove_tag" => {
                let tag: Tag = call[1].as_str().unwrap().parse().expect("tag");
                want_err = tag.is_synthetic();
                if name == "add_tag" { task.add_tag(&tag, &mut ops) } else { task.remove_tag(&tag, &mut ops) }
            }
            "add_annotation" => task.add_annotation(Annotation { entry: ts(&call[1]), description: sval(&call[2]).unwrap() }, &mut ops),
            "remove_annotation" => task.remove_annotation(ts(&call[1]), &mut ops),
            "set_uda" => {
                let key = call[1].as_str().unwrap().to_string();
                want_err = ["status", "modified", "end"].contains(&key.as_str()) || key.starts_with("tag_") || key.starts_with("annotation_") || key.starts_with("dep_");
                task.set_user_defined_attribute(key, sval(&call[2]).unwrap(), &mut ops)
            }
            "remove_uda" => task.remove_user_defined_attribute(call[1].as_str().unwrap().to_string(), &mut ops),
            "add_dependency" => task.add_dependency(b, &mut ops),
            "remove_dependency" => task.remove_dependency(b, &mut ops),
            "purge_target" => {
                purge = true;
                continue;
            }
            other => {
                problems.push(json!({"unknown_call": other}));
                Ok(())
            }
        };
        let new_ops = &ops[n0..];
        if want_err {
            if res.is_ok() || !new_ops.is_empty() {
                problems.push(json!({"reserved_accepted": call}));
            }
            continue;
        }
        if let Err(e) = res {
            problems.push(json!({"mutator_err": e.to_string(), "call": call}));
            continue;
        }
        // old values
        for op in new_ops {
            if let Operation::Update { property, old_value, value, .. } = op {
                if before.get(property) != old_value.as_ref() {
                    problems.push(json!({"old_value": {"prop": property, "recorded": old_value, "was": before.get(property)}}));
                }
                match value {
                    Some(v) => {
                        before.insert(property.clone(), v.clone());
                    }
                    None => {
                        before.remove(property);
                    }
                }
            }
        }
        // modified refreshed once per session, never when set explicitly
        let mutates = !(name == "start" && was_active);
        let mod_ops = new_ops.iter().filter(|o| matches!(o, Operation::Update { property, .. } if property == "modified")).count();
        let mut exp = if explicit_mod { 1 } else { 0 };
        if mutates && !first_mutation_done && !explicit_mod {
            exp += 1;
        }
        if mutates {
            first_mutation_done = true;
        }
        if mod_ops != exp {
            problems.push(json!({"modified_refresh": {"call": call, "ops_on_modified": mod_ops, "expected": exp}}));
        }
        // end maintained by set_status / done
        if name == "set_status" || name == "done" {
            let st = if name == "done" { "Completed" } else { call[1].as_str().unwrap_or("") };
            let has_end = before.contains_key("end");
            let want = !(st == "Pending" || st == "Recurring");
            if has_end != want {
                problems.push(json!({"end_rule": {"status": st, "had_end": had_end, "has_end": has_end}}));
            }
        }
    }
    let held: BTreeMap<String, String> = task.clone().into_task_data().iter().map(|(k, v)| (k.clone(), v.clone())).collect();
    let nops = ops.len();
    if let Err(e) = block_on(rep.commit_operations(ops)) {
        problems.push(json!({"commit_err": e.to_string()}));
    }
    let stored = block_on(rep.get_task(a)).expect("get_task");
    match stored {
        None => {
            if exists || nops > 0 {
                problems.push(json!({"stored_missing": true}));
            }
        }
        Some(st) => {
            let smap: BTreeMap<String, String> = st.clone().into_task_data().iter().map(|(k, v)| (k.clone(), v.clone())).collect();
            if smap != held {
                problems.push(json!({"stored_vs_held": {"stored": smap, "held": held}}));
            }
            let status = smap.get("status").cloned().unwrap_or_else(|| "pending".to_string());
            if st.is_active() != smap.contains_key("start") {
                problems.push(json!({"reader": "is_active"}));
            }
            for (tagname, want) in [("PENDING", status == "pending"), ("COMPLETED", status == "completed"), ("DELETED", status == "deleted")] {
                let tag: Tag = tagname.parse().unwrap();
                if st.has_tag(&tag) != want {
                    problems.push(json!({"reader": format!("has_tag {tagname}"), "status": status}));
                }
            }
            let abc: Tag = "abc".parse().unwrap();
            if st.has_tag(&abc) != smap.contains_key("tag_abc") {
                problems.push(json!({"reader": "has_tag abc"}));
            }
            let ws = block_on(rep.working_set()).expect("ws");
            let in_ws = ws.by_uuid(a).is_some();
            let dep_key = format!("dep_{b}");
            if st.is_blocked() != (in_ws && smap.contains_key(&dep_key)) {
                problems.push(json!({"reader": "is_blocked", "in_ws": in_ws, "has_dep": smap.contains_key(&dep_key)}));
            }
        }
    }
    if purge {
        // purge the dependency target and reload: nothing may still refer to it
        let mut pops = Operations::new();
        if let Some(mut td) = block_on(rep.get_task_data(b)).expect("get_task_data") {
            td.delete(&mut pops);
        }
        block_on(rep.commit_operations(pops)).expect("purge commit");
        if let Some(t2) = block_on(rep.get_task(a)).expect("get_task") {
            let dm = block_on(rep.dependency_map(false)).expect("depmap");
            if t2.is_blocked() || dm.dependencies(a).count() > 0 {
                problems.push(json!({"stale_depmap": {"is_blocked": t2.is_blocked(), "dependencies": dm.dependencies(a).count()}}));
            }
        }
    }
    json!({"problems": problems, "nops": nops})
}
