//! scenarios for the task-model / working-set / storage properties (filled in per property)
use serde_json::{json, Value};

pub fn run(scn: &Value) -> Value {
    json!({"error": "model scenario not implemented", "scenario": scn})
}
