//! Independent implementation of the documented sealing construction (docs/src/encryption.md), written
//! directly against `ring`, used as the reference the crate's own seal/unseal is compared with.
use ring::{aead, pbkdf2};
use std::num::NonZeroU32;
use taskchampion::Uuid;

fn key(salt: &[u8], secret: &[u8]) -> aead::LessSafeKey {
    let mut k = [0u8; 32];
    pbkdf2::derive(
        pbkdf2::PBKDF2_HMAC_SHA256,
        NonZeroU32::new(600_000).unwrap(),
        salt,
        secret,
        &mut k,
    );
    aead::LessSafeKey::new(aead::UnboundKey::new(&aead::CHACHA20_POLY1305, &k).unwrap())
}

fn aad(version: Uuid) -> aead::Aad<[u8; 17]> {
    let mut a = [0u8; 17];
    a[0] = 1;
    a[1..].copy_from_slice(version.as_bytes());
    aead::Aad::from(a)
}

pub fn seal(salt: &[u8], secret: &[u8], version: Uuid, payload: &[u8], nonce: &[u8; 12]) -> Vec<u8> {
    let mut inout = payload.to_vec();
    key(salt, secret)
        .seal_in_place_append_tag(aead::Nonce::assume_unique_for_key(*nonce), aad(version), &mut inout)
        .unwrap();
    let mut out = vec![1u8];
    out.extend_from_slice(nonce);
    out.extend(inout);
    out
}

pub fn open(salt: &[u8], secret: &[u8], version: Uuid, sealed: &[u8]) -> Result<Vec<u8>, String> {
    if sealed.len() < 13 || sealed[0] != 1 {
        return Err("envelope".into());
    }
    let mut nonce = [0u8; 12];
    nonce.copy_from_slice(&sealed[1..13]);
    let mut ct = sealed[13..].to_vec();
    let pt = key(salt, secret)
        .open_in_place(aead::Nonce::assume_unique_for_key(nonce), aad(version), &mut ct)
        .map_err(|_| "open failed".to_string())?;
    Ok(pt.to_vec())
}
