//! Object-store scenarios: the real `CloudServer` (through the cfg-guarded hook constructors) over the
//! gated in-memory object store.  Sequential phases, store tweaks, and races whose schedule (which
//! client's next service request is served) and fault points come from the solver model.
//!
//! Version ids are minted by the real code with `Uuid::new_v4`, so the scenario names them by label;
//! where the relative order of ids matters the scenario gives the wanted order and the run is repeated
//! (the store is cleared, the handles are kept) until the minted ids happen to have it.
use std::cell::RefCell;
use std::collections::HashMap;
use std::future::Future;
use std::pin::Pin;
use std::rc::Rc;
use std::task::Poll;

use serde_json::{json, Value};
use taskchampion::server::{AddVersionResult, GetVersionResult, Server};
use taskchampion::verif::cloud::{MemStore, VerifCloudServer};
use taskchampion::Uuid;

use crate::{block_on, poll_once};

type Labels = Rc<RefCell<HashMap<u64, Uuid>>>;

fn hex(u: Uuid) -> Value {
    if u.is_nil() {
        json!(0)
    } else {
        json!(u.as_simple().to_string())
    }
}

fn id_of(v: &Value, labels: &Labels) -> Uuid {
    if let Some(k) = v.get("l").and_then(|k| k.as_u64()) {
        return *labels.borrow_mut().entry(k).or_insert_with(Uuid::new_v4);
    }
    if let Some(s) = v.get("raw").and_then(|k| k.as_str()) {
        return Uuid::parse_str(s).expect("raw uuid");
    }
    Uuid::nil()
}

fn bytes_of(v: &Value) -> Vec<u8> {
    v.as_array()
        .map(|a| a.iter().map(|b| b.as_u64().unwrap_or(0) as u8).collect())
        .unwrap_or_default()
}

fn name_of(v: &Value, labels: &Labels) -> String {
    if let Some(s) = v.as_str() {
        return s.to_string();
    }
    let mut out = String::new();
    for seg in v.as_array().expect("name segments") {
        if let Some(s) = seg.as_str() {
            out.push_str(s);
        } else {
            out.push_str(&id_of(seg, labels).as_simple().to_string());
        }
    }
    out
}

async fn do_call(srv: &mut VerifCloudServer, call: &Value, labels: &Labels) -> Value {
    let op = call["op"].as_str().unwrap_or("");
    match op {
        "add_version" => {
            let parent = id_of(&call["parent"], labels);
            if let Some(p) = call.get("cleanup_probability").and_then(|p| p.as_u64()) {
                srv.set_cleanup_probability(p as u8);
            }
            match srv.add_version(parent, bytes_of(&call["payload"])).await {
                Ok((AddVersionResult::Ok(v), _)) => {
                    if let Some(k) = call.get("bind").and_then(|k| k.as_u64()) {
                        labels.borrow_mut().insert(k, v);
                    }
                    json!({"ok": hex(v)})
                }
                Ok((AddVersionResult::ExpectedParentVersion(v), _)) => json!({"expected": hex(v)}),
                Err(e) => json!({"err": e.to_string()}),
            }
        }
        "get_child_version" => {
            let parent = id_of(&call["parent"], labels);
            match srv.get_child_version(parent).await {
                Ok(GetVersionResult::NoSuchVersion) => json!({"none": true}),
                Ok(GetVersionResult::Version {
                    version_id,
                    parent_version_id,
                    history_segment,
                }) => {
                    if let Some(k) = call.get("bind").and_then(|k| k.as_u64()) {
                        labels.borrow_mut().insert(k, version_id);
                    }
                    json!({"version": {"id": hex(version_id), "parent": hex(parent_version_id), "payload": history_segment}})
                }
                Err(e) => json!({"err": e.to_string()}),
            }
        }
        "add_snapshot" => {
            let v = id_of(&call["version"], labels);
            match srv.add_snapshot(v, bytes_of(&call["payload"])).await {
                Ok(()) => json!({"ok": true}),
                Err(e) => json!({"err": e.to_string()}),
            }
        }
        "get_snapshot" => match srv.get_snapshot().await {
            Ok(None) => json!({"none": true}),
            Ok(Some((v, data))) => json!({"snapshot": {"version": hex(v), "payload": data}}),
            Err(e) => json!({"err": e.to_string()}),
        },
        "cleanup" => match srv.cleanup().await {
            Ok(()) => json!({"ok": true}),
            Err(e) => json!({"err": e.to_string()}),
        },
        _ => json!({"error": format!("unknown call {op}")}),
    }
}

struct World {
    store: MemStore,
    servers: Vec<Option<VerifCloudServer>>,
    secrets: Vec<Vec<u8>>,
}

impl World {
    fn server(&mut self, c: usize, secret: &[u8]) -> &mut VerifCloudServer {
        while self.servers.len() <= c {
            self.servers.push(None);
            self.secrets.push(Vec::new());
        }
        if self.servers[c].is_none() || self.secrets[c] != secret {
            let s = block_on(VerifCloudServer::new(&self.store, c, secret.to_vec())).expect("CloudServer::new");
            let mut s = s;
            s.set_cleanup_probability(0);
            self.servers[c] = Some(s);
            self.secrets[c] = secret.to_vec();
        }
        self.servers[c].as_mut().unwrap()
    }
}

thread_local! {
    /// scenarios with "real_clock": true give times on the model's clock; the compiled cleanup reads the real clock, so
    /// every time is moved by (real now - model now) on the way in and back on the way out: all ages stay exact
    static SHIFT: std::cell::Cell<i64> = const { std::cell::Cell::new(0) };
}

fn t_in(t: u64) -> u64 {
    (t as i64 + SHIFT.with(|s| s.get())).max(0) as u64
}

fn t_out(t: u64) -> u64 {
    (t as i64 - SHIFT.with(|s| s.get())).max(0) as u64
}

fn dump(store: &MemStore) -> Value {
    Value::Array(
        store
            .dump()
            .into_iter()
            .filter(|(n, _, _)| n != "salt")
            .map(|(n, v, c)| {
                let val = if n == "latest" {
                    json!(String::from_utf8_lossy(&v).to_string())
                } else {
                    json!(v.len())
                };
                json!({"name": n, "value": val, "creation": t_out(c)})
            })
            .collect(),
    )
}

fn log_json(store: &MemStore, from: usize) -> Value {
    Value::Array(
        store
            .log()
            .into_iter()
            .skip(from)
            .filter(|(_, _, n)| n != "salt")
            .map(|(c, k, n)| json!([c, k, n]))
            .collect(),
    )
}

fn arm_faults(store: &MemStore, phase: &Value) {
    store.reset_counts();
    if let Some(fs) = phase.get("faults").and_then(|f| f.as_array()) {
        for f in fs {
            store.add_fault(
                f["client"].as_u64().unwrap_or(0) as usize,
                f["nth"].as_u64().unwrap_or(0),
                f["how"].as_str().unwrap_or("before"),
            );
        }
    }
}

fn run_try(w: &mut World, scn: &Value, labels: &Labels, default_secret: &[u8]) -> Value {
    let mut phases_out = Vec::new();
    for phase in scn["phases"].as_array().cloned().unwrap_or_default() {
        let log0 = w.store.log().len();
        if let Some(calls) = phase.get("seq").and_then(|s| s.as_array()) {
            // make sure the handles exist before faults are armed (their salt requests are not part of the scenario)
            for call in calls {
                let c = call["client"].as_u64().unwrap_or(0) as usize;
                let secret = call.get("secret").map(bytes_of).unwrap_or(default_secret.to_vec());
                w.server(c, &secret);
            }
            let log0 = w.store.log().len();
            arm_faults(&w.store, &phase);
            let mut results = Vec::new();
            for call in calls {
                let c = call["client"].as_u64().unwrap_or(0) as usize;
                let srv = w.servers[c].as_mut().unwrap();
                results.push(block_on(do_call(srv, call, labels)));
            }
            phases_out.push(json!({"results": results, "log": log_json(&w.store, log0)}));
        } else if let Some(tweaks) = phase.get("tweak").and_then(|s| s.as_array()) {
            for t in tweaks {
                if let Some(p) = t.get("put") {
                    w.store.put_raw(&name_of(&p["name"], labels), bytes_of(&p["value"]), t_in(p["creation"].as_u64().unwrap_or(0)));
                } else if let Some(p) = t.get("creation") {
                    w.store.set_creation(&name_of(&p["name"], labels), t_in(p["t"].as_u64().unwrap_or(0)));
                } else if let Some(p) = t.get("copy") {
                    let from = name_of(&p["from"], labels);
                    let to = name_of(&p["to"], labels);
                    if let Some((_, v, c)) = w.store.dump().into_iter().find(|(n, _, _)| *n == from) {
                        w.store.put_raw(&to, v, c);
                    }
                } else if let Some(p) = t.get("put_latest") {
                    let id = id_of(p, labels);
                    let created = w.store.dump().into_iter().find(|(n, _, _)| n == "latest").map(|x| x.2).unwrap_or(0);
                    // keep the position of `latest` in the store: replace the value in place
                    w.store.remove_raw("latest");
                    w.store.put_raw("latest", id.as_simple().to_string().into_bytes(), created);
                } else if let Some(p) = t.get("remove") {
                    w.store.remove_raw(&name_of(&p["name"], labels));
                } else if let Some(p) = t.get("now") {
                    w.store.set_now(t_in(p.as_u64().unwrap_or(0)));
                }
            }
            phases_out.push(json!({"tweaked": tweaks.len()}));
        } else if let Some(race) = phase.get("race") {
            let progs = race["programs"].as_object().cloned().unwrap_or_default();
            let mut clients: Vec<usize> = progs.keys().map(|k| k.parse::<usize>().unwrap()).collect();
            clients.sort();
            // "open_in_race": the clients open the (salt-less) store as the first step of their programs, inside the schedule
            let open_in_race = race.get("open_in_race").and_then(|b| b.as_bool()).unwrap_or(false);
            for &c in &clients {
                w.server(c, default_secret);
            }
            if open_in_race {
                w.store.remove_raw("salt");
            }
            let log0 = w.store.log().len();
            arm_faults(&w.store, race);
            w.store.set_gated(true);
            type Fut = Pin<Box<dyn Future<Output = (VerifCloudServer, Vec<Value>)>>>;
            let mut futs: HashMap<usize, Option<Fut>> = HashMap::new();
            let mut results: HashMap<usize, Vec<Value>> = HashMap::new();
            for &c in &clients {
                let mut srv = w.servers[c].take().unwrap();
                let calls: Vec<Value> = progs[&c.to_string()].as_array().cloned().unwrap_or_default();
                let labels = labels.clone();
                let store = w.store.clone();
                let secret = default_secret.to_vec();
                futs.insert(
                    c,
                    Some(Box::pin(async move {
                        let mut out = Vec::new();
                        for call in calls.iter() {
                            if call["op"].as_str() == Some("new") {
                                match VerifCloudServer::new(&store, c, secret.clone()).await {
                                    Ok(mut s) => {
                                        s.set_cleanup_probability(0);
                                        srv = s;
                                        out.push(json!({"ok": true}));
                                    }
                                    Err(e) => out.push(json!({"err": e.to_string()})),
                                }
                                continue;
                            }
                            out.push(do_call(&mut srv, call, &labels).await);
                        }
                        (srv, out)
                    })),
                );
            }
            let mut notes = Vec::new();
            let mut finish = |c: usize, futs: &mut HashMap<usize, Option<Fut>>, w: &mut World, results: &mut HashMap<usize, Vec<Value>>, v: (VerifCloudServer, Vec<Value>)| {
                futs.insert(c, None);
                w.servers[c] = Some(v.0);
                results.insert(c, v.1);
            };
            // every program runs up to its first request
            for &c in &clients {
                let r = poll_once(futs.get_mut(&c).unwrap().as_mut().unwrap().as_mut());
                if let Poll::Ready(v) = r {
                    finish(c, &mut futs, w, &mut results, v);
                }
            }
            for (k, step) in race["schedule"].as_array().cloned().unwrap_or_default().iter().enumerate() {
                let c = step.as_u64().unwrap_or(0) as usize;
                let before = w.store.log().len();
                match futs.get_mut(&c).and_then(|f| f.as_mut()) {
                    None => notes.push(format!("schedule step {k}: client {c} has already finished")),
                    Some(f) => {
                        w.store.grant(c);
                        let r = poll_once(f.as_mut());
                        if w.store.log().len() != before + 1 {
                            notes.push(format!("schedule step {k}: client {c} made {} requests", w.store.log().len() - before));
                        }
                        if let Poll::Ready(v) = r {
                            finish(c, &mut futs, w, &mut results, v);
                        }
                    }
                }
            }
            w.store.set_gated(false);
            for &c in &clients {
                if futs.get(&c).map(|f| f.is_some()).unwrap_or(false) {
                    notes.push(format!("client {c} had requests left after the schedule"));
                    let mut f = futs.get_mut(&c).unwrap().take().unwrap();
                    let v = loop {
                        if let Poll::Ready(v) = poll_once(f.as_mut()) {
                            break v;
                        }
                    };
                    finish(c, &mut futs, w, &mut results, v);
                }
            }
            let res: serde_json::Map<String, Value> = results.into_iter().map(|(c, r)| (c.to_string(), Value::Array(r))).collect();
            phases_out.push(json!({"results": res, "log": log_json(&w.store, log0), "notes": notes}));
        } else {
            let _ = log0;
            phases_out.push(json!({"error": "unknown phase"}));
        }
    }
    json!({"phases": phases_out, "store": dump(&w.store)})
}

fn order_ok(scn: &Value, labels: &Labels) -> bool {
    let Some(order) = scn.get("order").and_then(|o| o.as_array()) else {
        return true;
    };
    let l = labels.borrow();
    let mut prev: Option<Uuid> = None;
    for k in order {
        if let Some(u) = k.as_u64().and_then(|k| l.get(&k)) {
            if let Some(p) = prev {
                if p >= *u {
                    return false;
                }
            }
            prev = Some(*u);
        }
    }
    true
}

pub fn run(scn: &Value) -> Value {
    let secret = scn.get("secret").map(bytes_of).unwrap_or(b"sec".to_vec());
    let store = MemStore::new(scn["now"].as_u64().unwrap_or(2_000_000_000), scn["page_size"].as_u64().unwrap_or(100) as usize);
    let mut w = World {
        store,
        servers: Vec::new(),
        secrets: Vec::new(),
    };
    let model_now = scn["now"].as_u64().unwrap_or(2_000_000_000);
    let shift = if scn.get("real_clock").and_then(|b| b.as_bool()).unwrap_or(false) {
        let real = std::time::SystemTime::now().duration_since(std::time::UNIX_EPOCH).map(|d| d.as_secs()).unwrap_or(0);
        real as i64 - model_now as i64
    } else {
        0
    };
    SHIFT.with(|s| s.set(shift));
    let max_tries = scn["max_tries"].as_u64().unwrap_or(3000);
    let mut tries = 0;
    loop {
        tries += 1;
        let labels: Labels = Rc::new(RefCell::new(HashMap::new()));
        w.store.clear_except(&["salt"]);
        w.store.set_gated(false);
        w.store.set_now(t_in(model_now));
        let mut out = run_try(&mut w, scn, &labels, &secret);
        let ok = order_ok(scn, &labels);
        if ok || tries >= max_tries {
            if scn.get("inspect_sealing").and_then(|b| b.as_bool()).unwrap_or(false) {
                out["sealing"] = inspect_sealing(&w.store, &secret);
            }
            let l: serde_json::Map<String, Value> = labels.borrow().iter().map(|(k, u)| (k.to_string(), hex(*u))).collect();
            out["labels"] = Value::Object(l);
            out["order_matched"] = json!(ok);
            out["tries"] = json!(tries);
            return out;
        }
    }
}

/// For every version / snapshot object in the store: which version id (its own, or the parent's) opens it
/// under the independent implementation of the documented construction.
fn inspect_sealing(store: &MemStore, secret: &[u8]) -> Value {
    let objs = store.dump();
    let salt = objs.iter().find(|(n, _, _)| n == "salt").map(|x| x.1.clone()).unwrap_or_default();
    let mut out = Vec::new();
    for (name, value, _) in objs.iter() {
        let (own, parent) = if let Some(rest) = name.strip_prefix("v-") {
            if rest.len() != 65 {
                continue;
            }
            (Uuid::parse_str(&rest[33..]).ok(), Uuid::parse_str(&rest[..32]).ok())
        } else if let Some(rest) = name.strip_prefix("s-") {
            (Uuid::parse_str(rest).ok(), None)
        } else {
            continue;
        };
        let mut opens = Value::Null;
        if let Some(o) = own {
            if let Ok(p) = crate::refcrypto::open(&salt, secret, o, value) {
                opens = json!({"with": "own", "plain": p});
            }
        }
        if opens.is_null() {
            if let Some(p) = parent {
                if let Ok(pl) = crate::refcrypto::open(&salt, secret, p, value) {
                    opens = json!({"with": "parent", "plain": pl});
                }
            }
        }
        out.push(json!({"name": name, "len": value.len(), "opens": opens}));
    }
    Value::Array(out)
}

/// Sealing scenarios: the real seal/unseal against an independent implementation of the documented
/// construction (PBKDF2-HMAC-SHA256 x 600000, ChaCha20-Poly1305, AAD = app id 1 || version id,
/// envelope = 1 || nonce(12) || ciphertext+tag) written here with `ring` directly.
pub fn run_seal(scn: &Value) -> Value {
    use taskchampion::verif::encryption as enc;
    let salt = bytes_of(&scn["salt"]);
    let secret = bytes_of(&scn["secret"]);
    let version = Uuid::from_u128(scn["version"].as_str().and_then(|s| s.parse::<u128>().ok()).unwrap_or(0));
    let payload = bytes_of(&scn["payload"]);
    let mut out = serde_json::Map::new();
    let sealed = match enc::seal(&salt, &secret, version, payload.clone()) {
        Ok(s) => s,
        Err(e) => return json!({"seal_err": e.to_string()}),
    };
    out.insert("sealed_len".into(), json!(sealed.len()));
    out.insert("format_byte".into(), json!(sealed.first().copied()));
    // independent opening of what the crate sealed
    out.insert(
        "independent_open".into(),
        match crate::refcrypto::open(&salt, &secret, version, &sealed) {
            Ok(p) => json!({"ok": p}),
            Err(e) => json!({"err": e}),
        },
    );
    // the crate opens what the independent implementation sealed
    let nonce = [7u8; 12];
    let mine = crate::refcrypto::seal(&salt, &secret, version, &payload, &nonce);
    out.insert(
        "crate_opens_independent".into(),
        match enc::unseal(&salt, &secret, version, mine) {
            Ok(p) => json!({"ok": p}),
            Err(e) => json!({"err": e.to_string()}),
        },
    );
    // round trip and two seals differ (fresh nonce)
    out.insert(
        "round_trip".into(),
        match enc::unseal(&salt, &secret, version, sealed.clone()) {
            Ok(p) => json!({"ok": p}),
            Err(e) => json!({"err": e.to_string()}),
        },
    );
    if let Ok(s2) = enc::seal(&salt, &secret, version, payload.clone()) {
        out.insert("nonce_fresh".into(), json!(s2.get(1..13) != sealed.get(1..13)));
    }
    // opening attempts from the scenario
    let mut opens = Vec::new();
    for o in scn["opens"].as_array().cloned().unwrap_or_default() {
        let salt2 = o.get("salt").map(bytes_of).unwrap_or(salt.clone());
        let secret2 = o.get("secret").map(bytes_of).unwrap_or(secret.clone());
        let version2 = o
            .get("version")
            .and_then(|s| s.as_str())
            .and_then(|s| s.parse::<u128>().ok())
            .map(Uuid::from_u128)
            .unwrap_or(version);
        let mut data = sealed.clone();
        if let Some(t) = o.get("tamper") {
            match t["kind"].as_str().unwrap_or("") {
                "modify" => {
                    let i = (t["index"].as_u64().unwrap_or(0) as usize) % data.len().max(1);
                    let x = (t["xor"].as_u64().unwrap_or(1) as u8).max(1);
                    if !data.is_empty() {
                        data[i] ^= x;
                    }
                }
                "truncate" => {
                    let n = (t["keep"].as_u64().unwrap_or(0) as usize).min(data.len().saturating_sub(1));
                    data.truncate(n);
                }
                "extend" => data.extend(bytes_of(&t["bytes"])),
                "replace" => data = bytes_of(&t["bytes"]),
                _ => {}
            }
        }
        opens.push(match enc::unseal(&salt2, &secret2, version2, data) {
            Ok(p) => json!({"ok": p}),
            Err(e) => json!({"err": e.to_string()}),
        });
    }
    out.insert("opens".into(), Value::Array(opens));
    Value::Object(out)
}
