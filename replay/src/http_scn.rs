//! "srvcalls" scenarios with backend "http": `Server` trait calls on `ServerConfig::Remote` handles (the real HTTP client:
//! reqwest, sealing with the real primitives) against an in-process sync server written from docs/src/http.md.
//! A call may carry `"tamper"`: the next GET is then answered with a body and labels chosen by the scenario
//! (a server that re-labels what it stores).
use std::future::Future;
use std::pin::Pin;
use std::sync::{Arc, Mutex};

use httptest::bytes::Bytes;
use httptest::http::{Method, Request, Response, StatusCode};
use httptest::matchers::any;
use httptest::responders::Responder;
use httptest::{Expectation, Server as HttpServer};
use serde_json::{json, Value};
use taskchampion::server::{AddVersionResult, GetVersionResult, Server, SnapshotUrgency};
use taskchampion::{ServerConfig, Uuid};

const CT_SEGMENT: &str = "application/vnd.taskchampion.history-segment";
const CT_SNAPSHOT: &str = "application/vnd.taskchampion.snapshot";

#[derive(Default)]
struct State {
    client_id: String,
    chain: Vec<(Uuid, Uuid, Vec<u8>)>, // parent, id, body as received
    snapshot: Option<(Uuid, Vec<u8>)>,
    urgency: Vec<String>,               // header value for the next accepted versions ("" = none)
    override_get: Option<(String, Vec<(String, String)>, Vec<u8>)>, // content type, headers, body
    problems: Vec<String>,
    plaintext_seen: bool,
    needles: Vec<Vec<u8>>,
}

#[derive(Clone, Default)]
struct Conformant(Arc<Mutex<State>>);

fn plain(status: StatusCode) -> Response<Bytes> {
    Response::builder().status(status).body(Bytes::new()).unwrap()
}

impl Conformant {
    fn handle(&self, req: &Request<Bytes>) -> Response<Bytes> {
        let mut st = self.0.lock().unwrap();
        let cid = req.headers().get("x-client-id").and_then(|v| v.to_str().ok()).unwrap_or("").to_string();
        if cid != st.client_id {
            st.problems.push(format!("X-Client-Id {cid:?}"));
        }
        for n in st.needles.clone() {
            if !n.is_empty() && n.len() >= 4 && req.body().windows(n.len()).any(|w| w == &n[..]) {
                st.plaintext_seen = true;
            }
        }
        let ct = req.headers().get("content-type").and_then(|v| v.to_str().ok()).map(|s| s.to_string());
        let path = req.uri().path().to_string();
        // the endpoints live under the base path of the configured url
        let parts: Vec<&str> = path.trim_start_matches('/').split('/').skip_while(|p| *p != "v1").collect();
        match (req.method(), parts.as_slice()) {
            (&Method::POST, ["v1", "client", "add-version", parent]) => {
                let Ok(parent) = Uuid::parse_str(parent) else {
                    st.problems.push(format!("add-version path {path}"));
                    return plain(StatusCode::BAD_REQUEST);
                };
                if ct.as_deref() != Some(CT_SEGMENT) {
                    st.problems.push(format!("add-version content type {ct:?}"));
                    return plain(StatusCode::BAD_REQUEST);
                }
                if let Some(latest) = st.chain.last().map(|v| v.1) {
                    if latest != parent {
                        return Response::builder()
                            .status(StatusCode::CONFLICT)
                            .header("X-Parent-Version-Id", latest.to_string())
                            .body(Bytes::new())
                            .unwrap();
                    }
                }
                let vid = Uuid::new_v4();
                st.chain.push((parent, vid, req.body().to_vec()));
                let mut b = Response::builder().status(StatusCode::OK).header("X-Version-Id", vid.to_string());
                if !st.urgency.is_empty() {
                    let u = st.urgency.remove(0);
                    if !u.is_empty() {
                        b = b.header("X-Snapshot-Request", u);
                    }
                }
                b.body(Bytes::new()).unwrap()
            }
            (&Method::GET, ["v1", "client", "get-child-version", parent]) => {
                if let Some((ct, hs, body)) = st.override_get.take() {
                    let mut b = Response::builder().status(StatusCode::OK).header("Content-Type", ct);
                    for (k, v) in hs {
                        b = b.header(k, v);
                    }
                    return b.body(Bytes::from(body)).unwrap();
                }
                let Ok(parent) = Uuid::parse_str(parent) else {
                    st.problems.push(format!("get-child-version path {path}"));
                    return plain(StatusCode::BAD_REQUEST);
                };
                match st.chain.iter().find(|(p, _, _)| *p == parent) {
                    Some((p, v, body)) => Response::builder()
                        .status(StatusCode::OK)
                        .header("Content-Type", CT_SEGMENT)
                        .header("X-Version-Id", v.to_string())
                        .header("X-Parent-Version-Id", p.to_string())
                        .body(Bytes::from(body.clone()))
                        .unwrap(),
                    None => plain(StatusCode::NOT_FOUND),
                }
            }
            (&Method::POST, ["v1", "client", "add-snapshot", version]) => {
                let Ok(version) = Uuid::parse_str(version) else {
                    st.problems.push(format!("add-snapshot path {path}"));
                    return plain(StatusCode::BAD_REQUEST);
                };
                if ct.as_deref() != Some(CT_SNAPSHOT) {
                    st.problems.push(format!("add-snapshot content type {ct:?}"));
                    return plain(StatusCode::BAD_REQUEST);
                }
                st.snapshot = Some((version, req.body().to_vec()));
                plain(StatusCode::OK)
            }
            (&Method::GET, ["v1", "client", "snapshot"]) => {
                if let Some((ct, hs, body)) = st.override_get.take() {
                    let mut b = Response::builder().status(StatusCode::OK).header("Content-Type", ct);
                    for (k, v) in hs {
                        b = b.header(k, v);
                    }
                    return b.body(Bytes::from(body)).unwrap();
                }
                match &st.snapshot {
                    Some((v, body)) => Response::builder()
                        .status(StatusCode::OK)
                        .header("Content-Type", CT_SNAPSHOT)
                        .header("X-Version-Id", v.to_string())
                        .body(Bytes::from(body.clone()))
                        .unwrap(),
                    None => plain(StatusCode::NOT_FOUND),
                }
            }
            _ => {
                st.problems.push(format!("{} {path}", req.method()));
                plain(StatusCode::NOT_FOUND)
            }
        }
    }
}

impl Responder for Conformant {
    fn respond<'a>(&mut self, req: &'a Request<Bytes>) -> Pin<Box<dyn Future<Output = Response<Bytes>> + Send + 'a>> {
        let resp = self.handle(req);
        Box::pin(async move { resp })
    }
}

fn hex(u: Uuid) -> String {
    u.as_simple().to_string()
}

pub fn run(scn: &Value) -> Value {
    let rt = tokio::runtime::Builder::new_current_thread().enable_all().build().expect("tokio runtime");
    rt.block_on(run_async(scn))
}

async fn run_async(scn: &Value) -> Value {
    let http = HttpServer::run();
    let srv = Conformant::default();
    let client_id = Uuid::from_u128(scn["client_id"].as_str().and_then(|s| s.parse::<u128>().ok()).unwrap_or(0xC11E57));
    srv.0.lock().unwrap().client_id = client_id.to_string();
    http.expect(Expectation::matching(any()).times(0..).respond_with(srv.clone()));
    let secret: Vec<u8> = scn["secret"].as_array().map(|a| a.iter().map(|b| b.as_u64().unwrap_or(0) as u8).collect()).unwrap_or(b"sec".to_vec());
    let nh = scn["handles"].as_u64().unwrap_or(1) as usize;
    let mut handles: Vec<Box<dyn Server>> = Vec::new();
    for _ in 0..nh {
        handles.push(
            ServerConfig::Remote { url: http.url_str("/base"), client_id, encryption_secret: secret.clone() }
                .into_server()
                .await
                .expect("SyncServer::new"),
        );
    }
    let mut minted: Vec<Option<Uuid>> = Vec::new();
    let mut results = Vec::new();
    let uuid_of = |v: &Value, minted: &Vec<Option<Uuid>>| -> Uuid {
        if let Some(k) = v.get("ref").and_then(|k| k.as_u64()) {
            minted.get(k as usize).cloned().flatten().unwrap_or(Uuid::max())
        } else if let Some(s) = v.get("lit").and_then(|s| s.as_str()) {
            Uuid::from_u128(s.parse::<u128>().unwrap_or(0))
        } else {
            Uuid::nil()
        }
    };
    let bytes_of = |v: &Value| -> Vec<u8> { v.as_array().map(|a| a.iter().map(|b| b.as_u64().unwrap_or(0) as u8).collect()).unwrap_or_default() };
    for call in scn["calls"].as_array().cloned().unwrap_or_default() {
        let h = call["h"].as_u64().unwrap_or(0) as usize;
        if let Some(t) = call.get("tamper") {
            // answer the next GET with the body of a stored object under labels chosen by the scenario
            let mut st = srv.0.lock().unwrap();
            let body = if let Some(k) = t["body_of_version"].as_u64() {
                st.chain.get(k as usize).map(|v| v.2.clone()).unwrap_or_default()
            } else {
                st.snapshot.as_ref().map(|s| s.1.clone()).unwrap_or_default()
            };
            let mut hs = Vec::new();
            if t.get("version").is_some() {
                hs.push(("X-Version-Id".to_string(), uuid_of(&t["version"], &minted).to_string()));
            }
            if t.get("parent").is_some() {
                hs.push(("X-Parent-Version-Id".to_string(), uuid_of(&t["parent"], &minted).to_string()));
            }
            let ct = if t["as"].as_str() == Some("snapshot") { CT_SNAPSHOT } else { CT_SEGMENT };
            st.override_get = Some((ct.to_string(), hs, body));
        }
        let mut mint = None;
        let r = match call["call"].as_str().unwrap_or("") {
            "add_version" => {
                let parent = uuid_of(&call["parent"], &minted);
                let payload = bytes_of(&call["payload"]);
                {
                    let mut st = srv.0.lock().unwrap();
                    st.urgency = vec![call["urgency"].as_str().unwrap_or("").to_string()];
                    st.needles.push(payload.clone());
                }
                match handles[h].add_version(parent, payload).await {
                    Ok((AddVersionResult::Ok(v), u)) => {
                        mint = Some(v);
                        let un = match u {
                            SnapshotUrgency::None => 0,
                            SnapshotUrgency::Low => 1,
                            SnapshotUrgency::High => 2,
                        };
                        json!({"accepted": hex(v), "urgency": un})
                    }
                    Ok((AddVersionResult::ExpectedParentVersion(v), _)) => json!({"expected": hex(v)}),
                    Err(e) => json!({"err": e.to_string()}),
                }
            }
            "get_child_version" => {
                let parent = uuid_of(&call["parent"], &minted);
                match handles[h].get_child_version(parent).await {
                    Ok(GetVersionResult::Version { version_id, parent_version_id, history_segment }) => {
                        json!({"version": {"id": hex(version_id), "parent": hex(parent_version_id), "bytes": history_segment}})
                    }
                    Ok(GetVersionResult::NoSuchVersion) => json!("none"),
                    Err(e) => json!({"err": e.to_string()}),
                }
            }
            "add_snapshot" => {
                let v = uuid_of(&call["version"], &minted);
                let payload = bytes_of(&call["payload"]);
                srv.0.lock().unwrap().needles.push(payload.clone());
                match handles[h].add_snapshot(v, payload).await {
                    Ok(()) => json!("stored"),
                    Err(e) => json!({"err": e.to_string()}),
                }
            }
            "get_snapshot" => match handles[h].get_snapshot().await {
                Ok(None) => json!("none"),
                Ok(Some((v, d))) => json!({"snapshot": {"version": hex(v), "bytes": d}}),
                Err(e) => json!({"err": e.to_string()}),
            },
            other => json!({"error": format!("unknown call {other}")}),
        };
        minted.push(mint);
        results.push(r);
    }
    let mut walk = Vec::new();
    if scn.get("walk_from").is_some() {
        let mut fresh = ServerConfig::Remote { url: http.url_str("/base"), client_id, encryption_secret: secret.clone() }
            .into_server()
            .await
            .expect("SyncServer::new");
        let mut parent = uuid_of(&scn["walk_from"], &minted);
        for _ in 0..64 {
            match fresh.get_child_version(parent).await {
                Ok(GetVersionResult::Version { version_id, parent_version_id, history_segment }) => {
                    walk.push(json!({"id": hex(version_id), "parent": hex(parent_version_id), "bytes": history_segment}));
                    parent = version_id;
                }
                Ok(GetVersionResult::NoSuchVersion) => break,
                Err(e) => {
                    walk.push(json!({"err": e.to_string()}));
                    break;
                }
            }
        }
    }
    let st = srv.0.lock().unwrap();
    // what reached the server, opened with the independent implementation of docs/src/encryption.md: salt = the 16 bytes of
    // the client id; versions bound to their parent version id, snapshots to their own version id
    let mut sealing = Vec::new();
    if scn.get("inspect_sealing").and_then(|b| b.as_bool()).unwrap_or(false) {
        for (p, v, body) in st.chain.iter() {
            let ok = crate::refcrypto::open(client_id.as_bytes(), &secret, *p, body);
            sealing.push(json!({"object": "version", "id": hex(*v), "opens_bound_to_parent_with_client_id_salt": ok.is_ok(), "plain": ok.ok()}));
        }
        if let Some((v, body)) = st.snapshot.as_ref() {
            let ok = crate::refcrypto::open(client_id.as_bytes(), &secret, *v, body);
            sealing.push(json!({"object": "snapshot", "id": hex(*v), "opens_bound_to_own_id_with_client_id_salt": ok.is_ok(), "plain": ok.ok()}));
        }
    }
    json!({"results": results, "walk": walk, "sealing": sealing, "request_problems": st.problems, "plaintext_in_a_request_body": st.plaintext_seen,
           "stored_body_lengths": st.chain.iter().map(|v| v.2.len()).collect::<Vec<_>>()})
}
