"""Symbolic interpreter for the crate's MIR.  Crate-local functions are executed from their MIR;
calls that leave the crate are dispatched to the models registered in mirsym.models."""
import os
import re

import z3

from .parser import MirCrate, Unsupported, parse_operand, strip_generics, split_top
from .values import (Adt, Coroutine, Closure, LV, SavedLV, Ref, BoxV, PyVec, PySlice, PyMap, FnItem, Opaque,
                     TokStr, ZStr, SegStr, Bytes, Some, NONE, Ok, Err, Tuple, UNIT, is_sym, copy_val, clone_val,
                     deref, deref1, mkref)
from .explore import Panic, PathAbort, StepLimit

TRACE = int(os.environ.get('MIRSYM_TRACE', '0'))
NOT_HANDLED = object()

INT_BOUNDS = {
    'u8': (0, 2 ** 8 - 1), 'u16': (0, 2 ** 16 - 1), 'u32': (0, 2 ** 32 - 1), 'u64': (0, 2 ** 64 - 1),
    'u128': (0, 2 ** 128 - 1), 'usize': (0, 2 ** 64 - 1),
    'i8': (-2 ** 7, 2 ** 7 - 1), 'i16': (-2 ** 15, 2 ** 15 - 1), 'i32': (-2 ** 31, 2 ** 31 - 1),
    'i64': (-2 ** 63, 2 ** 63 - 1), 'i128': (-2 ** 127, 2 ** 127 - 1), 'isize': (-2 ** 63, 2 ** 63 - 1),
}

STD_ENUMS = {
    'DropBehavior': ['Rollback', 'Commit', 'Ignore', 'Panic'],
    'SecondsFormat': ['Secs', 'Millis', 'Micros', 'Nanos', 'AutoSi'],
    'Option': ['None', 'Some'], 'Result': ['Ok', 'Err'], 'Poll': ['Ready', 'Pending'],
    'ControlFlow': ['Continue', 'Break'], 'Entry': ['Occupied', 'Vacant'], 'Cow': ['Borrowed', 'Owned'],
    'Ordering': ['Less', 'Equal', 'Greater'],
    'LocalResult': ['Single', 'Ambiguous', 'None'], 'MappedLocalTime': ['Single', 'Ambiguous', 'None'],
}
ORDERING_DISCR = {'Less': -1, 'Equal': 0, 'Greater': 1}

# derive macros whose name is not the trait they implement: derive name -> [(trait, type-name suffix)]
DERIVE_TRAITS = {
    'AsRefStr': [('AsRef', '')],
    'EnumString': [('FromStr', ''), ('TryFrom', '')],
    'EnumIter': [('IntoEnumIterator', ''), ('Iterator', 'Iter'), ('DoubleEndedIterator', 'Iter'), ('ExactSizeIterator', 'Iter'), (None, 'Iter'), ('Clone', 'Iter')],
    'Display': [('Display', '')],
}

_re_const_int = re.compile(r'(-?\d+)_(u8|u16|u32|u64|u128|usize|i8|i16|i32|i64|i128|isize)$')
_CANON = [(' as std::iter::Iterator>', ' as Iterator>'), ('std::io::BufWriter::', 'BufWriter::'), ('server::types::', 'types::')]
_re_impl_at = re.compile(r'<impl at (src/[^:]+):(\d+):(\d+): (\d+):(\d+)>')


def wrap_int(v, ty):
    lo, hi = INT_BOUNDS[ty]
    m = hi - lo + 1
    if isinstance(v, int):
        return (v - lo) % m + lo
    return ((v - lo) % m) + lo


class SourceInfo:
    """enum declarations and impl headers read from the crate's source files"""

    def __init__(self, repo):
        self.repo = repo
        self.enums = {}        # enum name -> [variant names]  (last one wins on clash -> tracked)
        self.enum_clash = set()
        self.files = {}
        self._scan_enums()

    def lines(self, rel):
        if rel not in self.files:
            with open(os.path.join(self.repo, rel)) as f:
                self.files[rel] = f.read().split('\n')
        return self.files[rel]

    def _scan_enums(self):
        for root, _d, fs in os.walk(os.path.join(self.repo, 'src')):
            for fn in fs:
                if not fn.endswith('.rs'):
                    continue
                text = open(os.path.join(root, fn)).read()
                # cut test modules
                for m in re.finditer(r'^\s*(?:pub(?:\([^)]*\))?\s+)?enum\s+(\w+)[^{;]*\{', text, re.M):
                    name = m.group(1)
                    i = m.end()
                    d = 1
                    j = i
                    while d:
                        c = text[j]
                        if c == '{':
                            d += 1
                        elif c == '}':
                            d -= 1
                        j += 1
                    body = text[i:j - 1]
                    body = re.sub(r'//[^\n]*', '', body)
                    body = re.sub(r'#\[[^\]]*\]', '', body)
                    vs = []
                    for part in split_top(body):
                        mm = re.match(r'(\w+)', part.strip())
                        if mm:
                            vs.append(mm.group(1))
                    if name in self.enums and self.enums[name] != vs:
                        self.enum_clash.add(name)
                    self.enums[name] = vs

    def impl_header(self, rel, line, col, line2, col2):
        ls = self.lines(rel)
        l = ls[line - 1]
        frag = l[col - 1:]
        if frag.startswith('impl'):
            # may span several lines
            k = line - 1
            text = frag
            while '{' not in text and k + 1 < len(ls):
                k += 1
                text += ' ' + ls[k].strip()
            text = text.split('{')[0]
            text = re.sub(r'\bwhere\b.*', '', text).strip()
            return ('impl', text)
        # derive(...) : trait name is the spanned identifier; type is the next struct/enum
        trait = l[col - 1:col2 - 1] if line == line2 else frag
        k = line - 1
        while k < len(ls):
            mm = re.match(r'\s*(?:pub(?:\([^)]*\))?\s+)?(?:struct|enum)\s+(\w+)', ls[k])
            if mm:
                return ('derive', trait.strip(), mm.group(1))
            k += 1
        return ('derive', trait.strip(), None)


def _last_seg(ty):
    """last path segment of a type name, generics stripped: 'inmemory::Txn<'_>' -> 'Txn'"""
    t = strip_generics(ty.strip())
    t = t.lstrip('&').strip()
    if t.startswith('mut '):
        t = t[4:]
    return t.split('::')[-1].strip()


class Interp:
    def __init__(self, mirfile, repo='/repo', exclude_files=None):
        # exclude_files: regex over source paths whose impls are never instantiated by any harness (modules that are
        # thin wrappers over FFI); their impls are left out of trait-method resolution so that equally named types
        # (sqlite's Txn vs. the in-memory Txn) do not make it ambiguous
        self.exclude_files = exclude_files
        self.crate = MirCrate(mirfile)
        self.src = SourceInfo(repo)
        self.ctx = None
        self.steps = 0
        self.step_limit = 5_000_000
        self.depth = 0
        self._resolve_cache = {}
        self._agg_cache = {}
        self.by_last = {}            # last path segment -> [fn names]
        self.impls = {}              # (trait|None, type) -> [impl prefix]
        self.derived = set()         # (trait, type) derived impls
        self.closure_by_span = {}
        self.trait_defaults = {}     # (Trait, method) -> fn name
        self.encoded = set()         # crate functions actually executed (for evidence)
        self.modelled = set()        # model keys actually used
        self.env = {}                # harness-provided hooks (clock, rng, ...)
        self.fstack = []             # crate functions being executed (innermost last)
        self.drop_hooks = False      # set by harnesses whose model values have destructors with effects
        self._index()
        from . import models
        self.models = models.REGISTRY

    # ------------------------------------------------------------------ indexing
    def _index(self):
        for name, lst in self.crate.index.items():
            base = name
            last = base.split('::')[-1]
            self.by_last.setdefault(last, []).append(name)
            a = lst[0][0]
            h = self.crate.lines[a]
            m = re.search(r'\(_1: (?:&mut |&)?\{closure@([^}]*)\}', h)
            if m:
                self.closure_by_span['closure@' + m.group(1)] = name
            m = re.search(r'\(_1: Pin<&mut \{async block@([^}]*)\}>', h)
            if m:
                self.closure_by_span['coroutine@' + m.group(1)] = name
            m = re.search(r'\(_1: Pin<&mut \{async closure body@([^}]*)\}>', h)
            if m:
                self.closure_by_span['coroutine@' + m.group(1)] = name
        seen = set()
        for name in self.crate.index:
            for m in _re_impl_at.finditer(name):
                key = m.group(0)
                prefix = name[:m.end()]
                if prefix in seen:
                    continue
                seen.add(prefix)
                if self.exclude_files and re.search(self.exclude_files, m.group(1)):
                    continue
                hd = self.src.impl_header(m.group(1), int(m.group(2)), int(m.group(3)), int(m.group(4)), int(m.group(5)))
                if hd[0] == 'impl':
                    text = hd[1]
                    text = re.sub(r'^impl\s*(<[^>]*>)?\s*', '', self._strip_impl_generics(text))
                    if ' for ' in text:
                        tr, ty = text.split(' for ', 1)
                        key2 = (_last_seg(tr), _last_seg(ty))
                    else:
                        key2 = (None, _last_seg(text))
                    self.impls.setdefault(key2, []).append(prefix)
                else:
                    dname = hd[1].split('::')[-1]
                    for tr, ty in DERIVE_TRAITS.get(dname, [(dname, '')]):
                        key2 = (tr, (hd[2] or '') + ty)
                        self.impls.setdefault(key2, []).append(prefix)
                        self.derived.add(key2)

    @staticmethod
    def _strip_impl_generics(text):
        # 'impl<'de, T: X> Foo<T> for Bar<T>' -> 'impl Foo for Bar'
        assert text.startswith('impl')
        rest = text[4:].lstrip()
        if rest.startswith('<'):
            d = 0
            for k, c in enumerate(rest):
                if c == '<':
                    d += 1
                elif c == '>' and rest[k - 1] not in '-=':
                    d -= 1
                    if d == 0:
                        rest = rest[k + 1:]
                        break
        return 'impl ' + rest.strip()

    def impl_for(self, trait, name, ty_hint=''):
        """impl prefix of `trait` for the type whose last path segment is `name`; equally named types in different
        modules (taskdb::sync::Version / server::local::Version in the 'full' dump) are told apart by the module path of
        the declared type"""
        lst = self.impls.get((trait, name)) or []
        # impls nested inside a derive expansion (visitors) carry the span of the derive as well: keep the outermost
        lst = [p for p in lst if p.count('<impl at ') == 1] or lst
        if len(lst) <= 1:
            return lst[0] if lst else None
        t = strip_generics(ty_hint or '').lstrip('&').strip()
        if '::' in t:
            mod = t.rsplit('::', 1)[0] + '::'
            narrowed = [n for n in lst if n.split('<impl at')[0].endswith(mod) or n.split('<impl at')[0].endswith(mod + '_::')]
            if len(narrowed) == 1:
                return narrowed[0]
        raise Unsupported(f'ambiguous {trait} impl for {name} (declared type {ty_hint!r}): {lst}')

    # ------------------------------------------------------------------ enum helpers
    def variant_index(self, enum, variant):
        vs = STD_ENUMS.get(enum) or self.src.enums.get(enum)
        if vs is None or variant not in vs:
            return None
        if enum in self.src.enum_clash:
            raise Unsupported(f'ambiguous enum name {enum}')
        return vs.index(variant)

    def variant_name(self, enum, idx):
        vs = STD_ENUMS.get(enum) or self.src.enums.get(enum)
        return vs[idx]

    def mk_enum(self, enum, variant, fields=()):
        i = self.variant_index(enum, variant)
        if i is None:
            raise Unsupported(f'unknown enum variant {enum}::{variant}')
        return Adt(enum, i, list(fields))

    # ------------------------------------------------------------------ places
    def lv(self, frame, pl):
        cur = LV(frame, pl.base)
        proj = pl.proj
        i, n = 0, len(proj)
        while i < n:
            p = proj[i]
            k = p[0]
            if k == 'deref':
                v = cur.get()
                if isinstance(v, Ref):
                    cur = v.lv
                elif isinstance(v, BoxV):
                    cur = LV(v.cell, 0)
                elif isinstance(v, Adt) and v.name == 'Pin':
                    r = v.fields[0]
                    cur = r.lv if isinstance(r, Ref) else LV(r.cell, 0)
                elif isinstance(v, PySlice) or isinstance(v, PyVec):
                    pass    # *(&[T]) -> the slice itself
                elif hasattr(v, 'deref_target'):
                    cur = v.deref_target()
                else:
                    raise Unsupported(f'deref of {v!r}')
            elif k == 'downcast':
                v = cur.get()
                if isinstance(v, Coroutine):
                    nxt = proj[i + 1]
                    cur = SavedLV(v.saved, (p[1], nxt[1]))
                    i += 2
                    continue
                # enum downcast: fields follow; nothing to do
            elif k == 'field':
                v = cur.get()
                if isinstance(v, (Adt, Coroutine, Closure)):
                    f = v.fields
                    while len(f) <= p[1]:
                        f.append(None)
                    cur = LV(f, p[1])
                elif isinstance(v, BoxV):
                    pass  # Box -> Unique -> NonNull wrappers are transparent
                elif hasattr(v, 'field_lv'):
                    cur = v.field_lv(p[1])
                elif v is None:
                    # first write into an uninitialised aggregate (field-wise init)
                    nv = Adt('?', 0, [])
                    cur.set(nv)
                    f = nv.fields
                    while len(f) <= p[1]:
                        f.append(None)
                    cur = LV(f, p[1])
                else:
                    raise Unsupported(f'field {p[1]} of {v!r}')
            elif k == 'index':
                v = cur.get()
                idx = frame[p[1]]
                cur = self._index_lv(v, idx)
            elif k == 'cindex':
                v = cur.get()
                cur = self._index_lv(v, p[1])
            elif k == 'subslice':
                v = cur.get()
                raise Unsupported('subslice pattern')
            i += 1
        return cur

    def _index_lv(self, v, idx):
        if is_sym(idx):
            n = len(v.items)
            idx = self.ctx.concretize(idx, range(n))
        if isinstance(v, PyVec):
            if not (0 <= idx < len(v.items)):
                raise Panic('index out of bounds (place)')
            return LV(v.items, idx)
        if isinstance(v, PySlice):
            if not (0 <= idx < v.end - v.start):
                raise Panic('index out of bounds (place)')
            return LV(v.base.items, v.start + idx)
        if isinstance(v, Adt):
            return LV(v.fields, idx)
        raise Unsupported(f'index into {v!r}')

    # ------------------------------------------------------------------ operands / consts
    def operand(self, frame, op):
        k = op[0]
        if k == 'copy':
            pl = op[1]
            if not pl.proj:
                return copy_val(frame[pl.base])
            return copy_val(self.lv(frame, pl).get())
        if k == 'move':
            pl = op[1]
            v = frame[pl.base] if not pl.proj else self.lv(frame, pl).get()
            if isinstance(v, Adt):
                return Adt(v.name, v.variant, v.fields[:])
            return v
        return self.const(op[1], frame)

    def const(self, c, frame=None):
        if c == 'true':
            return True
        if c == 'false':
            return False
        m = _re_const_int.match(c)
        if m:
            return int(m.group(1))
        if c.startswith('"'):
            return self._str_lit(c)
        if c.startswith('b"'):
            return PyVec(list(self._str_lit(c[1:]).encode('latin-1')))
        if c == '()':
            return UNIT()
        if c.startswith("'") and c.endswith("'"):
            s = self._str_lit('"' + c[1:-1] + '"')
            return ord(s)
        m = re.match(r'(-?\d+(?:\.\d+)?)(?:_?f(32|64))$', c) or re.match(r'(-?\d+\.\d+(?:e-?\d+)?)f(32|64)$', c)
        if m:
            return float(m.group(1))
        if c.startswith('{alloc'):
            m = re.match(r'\{(alloc\d+): ', c)
            if m and m.group(1) in self.crate.static_allocs:
                return mkref(Adt('static:' + self.crate.static_allocs[m.group(1)].split('::')[-1], 0, []))
            return Opaque(c)
        m = re.match(r'(?:core::num::<impl )?(u8|u16|u32|u64|u128|usize|i8|i16|i32|i64|i128|isize)>?::(MAX|MIN)$', c)
        if m:
            lo, hi = INT_BOUNDS[m.group(1)]
            return hi if m.group(2) == 'MAX' else lo
        if c.startswith('ZeroSized: '):
            ty = c[len('ZeroSized: '):]
            if ty.startswith('{closure@'):
                span = ty[ty.index('@') + 1:].rstrip('}')
                body = self.closure_by_span.get('closure@' + span)
                if body is None:
                    raise Unsupported('closure body not found for ' + c)
                return Closure(body, [])
            if ty.startswith('fn(') or ty.startswith('for<'):
                raise Unsupported('zero-sized fn item constant ' + c)
            return Adt(_last_seg(ty), 0, [])
        if 'promoted[' in c:
            return self.eval_promoted(c, frame)
        sp = strip_generics(c)
        ent = self.models.const(sp)
        if ent is not None:
            return ent(self, c)
        # crate constants
        last = sp.split('::')[-1]
        for cname, val in self.crate.simple_consts.items():
            if cname == sp or cname.split('::')[-1] == last:
                return self.const(val, frame)
        for cname in self.crate.consts:
            if cname == sp or cname.endswith('::' + last) or cname == last:
                return self.eval_const_item(cname)
        # unit struct / unit enum variant / fn item
        parts = sp.split('::')
        if len(parts) >= 2:
            vi = self.variant_index(parts[-2], parts[-1])
            if vi is not None:
                return Adt(parts[-2], vi, [])
        return FnItem(c)

    @staticmethod
    def _str_lit(c):
        body = c[1:-1]
        if '\\' not in body:
            return body
        out, i, n = [], 0, len(body)
        while i < n:
            ch = body[i]
            if ch != '\\':
                out.append(ch)
                i += 1
                continue
            e = body[i + 1]
            if e == 'n':
                out.append('\n'); i += 2
            elif e == 't':
                out.append('\t'); i += 2
            elif e == 'r':
                out.append('\r'); i += 2
            elif e == '0':
                out.append('\0'); i += 2
            elif e in '"\'\\':
                out.append(e); i += 2
            elif e == 'u':
                j = body.index('}', i)
                out.append(chr(int(body[i + 3:j], 16))); i = j + 1
            elif e == 'x':
                out.append(chr(int(body[i + 2:i + 4], 16))); i += 4
            elif e == '\n':
                i += 2
                while i < n and body[i] in ' \t\n':
                    i += 1
            else:
                raise Unsupported('string escape ' + c)
        return ''.join(out)

    def eval_promoted(self, c, frame):
        # 'const <path>::promoted[k]' : find by owning fn + index
        m = re.search(r'promoted\[(\d+)\]$', c)
        k = m.group(1)
        owner = getattr(frame, 'fname', None) if frame is not None else None
        cands = []
        if owner:
            key = owner + '::promoted[' + k + ']'
            if key in self.crate.consts:
                cands = [key]
            else:
                last = owner.split('::')
                # promoted of closures are listed under the short name
                for cname in self.crate.consts:
                    if cname.endswith('promoted[' + k + ']'):
                        base = cname[:-(len('::promoted[]') + len(k))]
                        if owner.endswith(base):
                            cands.append(cname)
        if len(cands) != 1:
            raise Unsupported(f'promoted constant {c} (owner {owner}) -> {cands}')
        return self.eval_const_item(cands[0])

    def eval_const_item(self, cname):
        f = self.crate.parse_const(cname)
        return self.exec_body(f, [])

    # ------------------------------------------------------------------ types of operands
    def operand_type(self, func, op):
        k = op[0]
        if k == 'const':
            m = _re_const_int.match(op[1])
            return m.group(2) if m else None
        pl = op[1]
        if not pl.proj:
            return func.locals.get(pl.base)
        last = pl.proj[-1]
        if last[0] == 'field':
            return last[2]
        return None

    # ------------------------------------------------------------------ calls
    def call(self, path, args, frame=None):
        self.steps += 1
        if TRACE:
            print('  ' * self.depth + 'call', path[:160])
        sp = self._resolve_cache.get(path)
        if sp is None:
            sp = strip_generics(path)
            # rustc prints the shortest unambiguous path: with more dependencies compiled in (the 'full' dump) some
            # std names are qualified; bring them back to the form the models are keyed by
            for a, b in _CANON:
                if a in sp:
                    sp = sp.replace(a, b)
            self._resolve_cache[path] = sp
        ch = self.env.get('call_hook')
        if ch is not None:
            r = ch(self, sp, path, args)
            if r is not NOT_HANDLED:
                return r
        mdl = self.models.lookup(sp)
        if mdl is not None:
            self.modelled.add(mdl.key)
            return mdl.fn(self, path, args)
        name = self.resolve(sp, path, args)
        if name is None:
            raise Unsupported('no model and no crate body for callee: ' + path)
        if callable(name):
            return name(self, path, args)
        return self.run(name, args)

    def resolve(self, sp, path, args):
        """map a (generic-stripped) callee path to a crate MIR function name, using the runtime
        type of the receiver for trait dispatch"""
        idx = self.crate.index
        if sp in idx:
            return sp
        m = re.match(r'<(.*) as (.*)>::(\w+)$', sp)
        if m:
            selfty, trait, meth = m.group(1).strip(), _last_seg(m.group(2)), m.group(3)
            recv = deref(args[0]) if args else None
            cands = []
            if recv is not None and hasattr(recv, 'rust_call'):
                fn = recv.rust_call(trait, meth)
                if fn is not None:
                    return fn
            tname = None
            if isinstance(recv, Adt):
                tname = recv.name
            elif isinstance(recv, (Closure, Coroutine)):
                tname = None
            if selfty.startswith('dyn ') or re.fullmatch(r'[A-Z]\w{0,3}', selfty) or selfty in ('Self',):
                tys = [tname] if tname else []
            else:
                tys = [_last_seg(selfty)]
                if tname and tname not in tys:
                    tys.append(tname)
            for ty in tys:
                for prefix in self.impls.get((trait, ty), []):
                    n = prefix + '::' + meth
                    if n in idx:
                        cands.append(n)
                if cands:
                    break
            if len(cands) > 1 and '::' in selfty:
                # equally named types in different modules: keep the impls whose path carries the module of the self type
                mod = strip_generics(selfty).rsplit('::', 1)[0] + '::'
                narrowed = [n for n in cands if n.split('<impl at')[0].endswith(mod) or n.split('<impl at')[0].endswith(mod + '_::')]
                if narrowed:
                    cands = narrowed
            if len(cands) == 1:
                return cands[0]
            if len(cands) > 1:
                raise Unsupported(f'ambiguous trait method {sp}: {cands}')
            # trait default method
            for n in self.by_last.get(meth, []):
                segs = n.split('::')
                if len(segs) >= 2 and segs[-2] == trait:
                    return n
            return None
        # inherent method or free function: Type::method / module::func / func
        segs = sp.split('::')
        meth = segs[-1]
        if meth.startswith('{closure#'):
            for n in idx:
                if n.endswith(sp):
                    return n
            return None
        if len(segs) >= 2:
            ty = segs[-2]
            cands = []
            for prefix in self.impls.get((None, ty), []):
                n = prefix + '::' + meth
                if n in idx:
                    cands.append(n)
            if len(cands) == 1:
                return cands[0]
            if len(cands) > 1:
                raise Unsupported(f'ambiguous inherent method {sp}: {cands}')
        hits = [n for n in self.by_last.get(meth, []) if n == sp or n.endswith('::' + sp)]
        if len(hits) == 1:
            return hits[0]
        if len(segs) == 1:
            hits = [n for n in self.by_last.get(meth, []) if '<impl at' not in n]
            if len(hits) == 1:
                return hits[0]
        if len(segs) >= 2:
            # module-qualified free function: match the longest suffix available
            hits = [n for n in self.by_last.get(meth, []) if '<impl at' not in n and n.split('::')[-2:] == segs[-2:]]
            if len(hits) == 1:
                return hits[0]
        return None

    def run(self, name, args, which=0):
        lst = self.crate.index.get(name)
        if lst is None:
            raise Unsupported('no such crate fn ' + name)
        if len(lst) > 1:
            which = self._pick_overload(name, lst, args)
        f = self.crate.func(name, which)
        if f.nargs != len(args):
            raise Unsupported(f'arity mismatch calling {name}: {f.nargs} vs {len(args)}')
        self.encoded.add(name)
        return self.exec_body(f, args)

    def _pick_overload(self, name, lst, args):
        # several bodies share a name (e.g. From impls in one macro-generated span): pick by first arg type
        if args:
            a0 = deref1(args[0])
            tn = a0.name if isinstance(a0, Adt) else None
            if tn:
                for w in range(len(lst)):
                    f = self.crate.func(name, w)
                    if f.argtypes and _last_seg(f.argtypes[0]) == tn:
                        return w
        raise Unsupported(f'overloaded body {name}')

    def call_value(self, f, args):
        """call a closure / fn item / fn pointer value"""
        g = f
        if isinstance(g, Ref):
            g = g.lv.get()
            if isinstance(g, Ref):
                g = g.lv.get()
        if isinstance(g, Closure):
            fn = self.crate.func(g.body)
            selfarg = mkref(g) if fn.self_byref else g
            return self.run(g.body, [selfarg] + list(args))
        if isinstance(g, FnItem):
            return self.call(g.path, list(args))
        if callable(g):
            return g(self, *args)
        raise Unsupported('call of non-callable value ' + repr(g))

    def call_fn_trait(self, f, argtuple):
        """<F as Fn*>::call*(f, (args,))"""
        return self.call_value(f, list(argtuple.fields))

    # ------------------------------------------------------------------ execution
    def exec_body(self, f, args):
        frame = Frame(f.name)
        for i, a in enumerate(args):
            frame[i + 1] = a
        blocks = f.blocks
        bb = 'bb0'
        ctx = self.ctx
        self.depth += 1
        if self.depth > 400:
            raise Unsupported('call depth exceeded')
        self.fstack.append(f)
        try:
            while True:
                for st in blocks[bb]:
                    self.steps += 1
                    k = st[0]
                    if k == 'assign':
                        v = self.rvalue(frame, st[2], f)
                        pl = st[1]
                        if not pl.proj:
                            frame[pl.base] = v
                        else:
                            self.lv(frame, pl).set(v)
                    elif k == 'call':
                        _, dest, func, aops, tg = st
                        args2 = [self.operand(frame, a) for a in aops]
                        if func.startswith(('move ', 'copy ')):
                            fv = self.operand(frame, parse_operand(func))
                            r = self.call_value(fv, args2)
                        else:
                            r = self.call(func, args2, frame)
                        if dest is not None:
                            self.lv(frame, dest).set(r)
                        if 'return' not in tg:
                            raise Panic('diverging call returned: ' + func, f.name)
                        bb = tg['return']
                        break
                    elif k == 'switch':
                        x = self.operand(frame, st[1])
                        tg = st[2]
                        nxt = None
                        if isinstance(x, bool):
                            x = int(x)
                        if isinstance(x, int):
                            nxt = tg.get(str(x))
                            if nxt is None and x < 0:
                                # switch values are printed as the unsigned bit pattern of the operand's width
                                for wbits in (8, 16, 32, 64, 128):
                                    nxt = tg.get(str(x + (1 << wbits)))
                                    if nxt is not None:
                                        break
                            if nxt is None:
                                nxt = tg['otherwise']
                        else:
                            isb = z3.is_bool(x)
                            for kk, t in tg.items():
                                if kk == 'otherwise':
                                    continue
                                cond = (x if int(kk) else z3.Not(x)) if isb else (x == int(kk))
                                if ctx.branch(cond):
                                    nxt = t
                                    break
                            if nxt is None:
                                nxt = tg['otherwise']
                        bb = nxt
                        break
                    elif k == 'goto':
                        bb = st[1]
                        break
                    elif k == 'drop':
                        # drops are elaborated (executed only for initialised places); only model values that have
                        # a destructor with an observable effect (a database transaction rolls back) react
                        if self.drop_hooks:
                            try:
                                dv = self.lv(frame, st[1]).get()
                            except Exception:  # noqa
                                dv = None
                            if hasattr(dv, 'on_drop'):
                                dv.on_drop(self)
                        bb = st[2]['return']
                        break
                    elif k == 'return':
                        return frame[0]
                    elif k == 'setdiscr':
                        lv = self.lv(frame, st[1])
                        v = lv.get()
                        if isinstance(v, Coroutine):
                            v.state = st[2]
                        elif isinstance(v, Adt):
                            v.variant = st[2]
                        else:
                            raise Unsupported(f'set discriminant of {v!r}')
                    elif k == 'assert':
                        c = self.operand(frame, st[2])
                        if isinstance(c, bool):
                            ok = (not c) if st[1] else c
                        else:
                            ok = z3.Not(c) if st[1] else c
                        if not ctx.branch(ok):
                            raise Panic('assert failed: ' + st[3][:120], f.name)
                        bb = st[4]['success']
                        break
                    elif k == 'unreachable':
                        raise Unsupported('reached `unreachable` terminator in ' + f.name)
                    elif k == 'resume':
                        raise Unsupported('reached `resume` in ' + f.name)
                    elif k == 'unsupported':
                        raise Unsupported(st[1])
                    else:
                        raise Unsupported('stmt ' + repr(st))
                else:
                    raise Unsupported('fell off block ' + bb + ' in ' + f.name)
                if self.steps > self.step_limit:
                    raise StepLimit()
        finally:
            self.depth -= 1
            self.fstack.pop()

    def discr(self, lv):
        v = lv.get()
        if isinstance(v, Coroutine):
            return v.state
        if isinstance(v, Adt):
            if v.name == 'Ordering':
                return v.variant - 1
            return v.variant
        if hasattr(v, 'discriminant'):
            return v.discriminant(self)
        raise Unsupported(f'discriminant of {v!r}')

    def rvalue(self, frame, rv, func):
        k = rv[0]
        if k == 'use':
            return self.operand(frame, rv[1])
        if k == 'ref':
            pl = rv[1]
            lv = self.lv(frame, pl)
            # reborrow of a slice / str place keeps the fat value
            if pl.proj and pl.proj[-1][0] == 'deref':
                v = lv.get()
                if isinstance(v, (PySlice,)):
                    return v
            return Ref(lv)
        if k == 'discr':
            return self.discr(self.lv(frame, rv[1]))
        if k == 'cast':
            return self.cast(frame, rv, func)
        if k == 'binop':
            a, b = self.operand(frame, rv[2]), self.operand(frame, rv[3])
            ty = self.operand_type(func, rv[2]) or self.operand_type(func, rv[3])
            return self.binop(rv[1], a, b, ty)
        if k == 'unop':
            a = self.operand(frame, rv[2])
            if rv[1] == 'Not':
                if isinstance(a, bool):
                    return not a
                if is_sym(a) and z3.is_bool(a):
                    return z3.Not(a)
                ty = self.operand_type(func, rv[2])
                if isinstance(a, int) and ty in INT_BOUNDS:
                    lo, hi = INT_BOUNDS[ty]
                    return (hi - a) if lo == 0 else (-a - 1)
                raise Unsupported('bitwise Not on symbolic int')
            if rv[1] == 'Neg':
                return -a
        if k == 'agg':
            return self.aggregate(frame, rv, func)
        if k == 'len':
            v = self.lv(frame, rv[1]).get()
            return len(v.items)
        if k == 'ptrmeta':
            v = deref1(self.operand(frame, rv[1]))
            if isinstance(v, (PyVec, PySlice)):
                return len(v.items)
            if isinstance(v, str):
                return len(v.encode())
            from .models import strings
            return strings.str_len(self, v)
        if k == 'repeat':
            v = self.operand(frame, rv[1])
            m = _re_const_int.match(rv[2].replace('const ', ''))
            n = int(m.group(1)) if m else int(rv[2])
            return PyVec([copy_val(v) for _ in range(n)])
        if k == 'nullop':
            if rv[1] in ('UbChecks', 'ContractChecks'):
                return False
            if rv[1] == 'OverflowChecks':
                return True
            raise Unsupported('nullop ' + rv[1])
        raise Unsupported('rvalue ' + repr(rv))

    def cast(self, frame, rv, func):
        v = self.operand(frame, rv[1])
        spec = rv[2]
        m = re.match(r'(.*) \((\w+)(?:\((.*)\))?\)$', spec)
        kind = m.group(2) if m else ''
        if kind == 'IntToInt':
            ty = m.group(1).strip()
            if isinstance(v, bool):
                v = int(v)
            if is_sym(v) and z3.is_bool(v):
                v = z3.If(v, 1, 0)
            if ty in INT_BOUNDS:
                src = self.operand_type(func, rv[1])
                if src in INT_BOUNDS:
                    slo, shi = INT_BOUNDS[src]
                    lo, hi = INT_BOUNDS[ty]
                    if lo <= slo and shi <= hi:
                        return v
                if isinstance(v, int):
                    return wrap_int(v, ty)
                return wrap_int(v, ty)
            return v
        if kind in ('PointerCoercion', 'Transmute', 'PtrToPtr', 'PointerExposeProvenance', 'FnPtrToPtr',
                    'PointerWithExposedProvenance', 'Subtype'):
            return v
        if kind in ('IntToFloat', 'FloatToInt', 'FloatToFloat'):
            raise Unsupported('float cast')
        return v

    def aggregate(self, frame, rv, func):
        kind, path, ops = rv[1], rv[2], rv[3]
        vals = [self.operand(frame, o) for o in ops]
        if kind == 'tuple':
            return Adt('tuple', 0, vals)
        if kind == 'array':
            return PyVec(vals)
        if kind == 'coroutine':
            m = re.search(r'@(src/[^ }]*(?: [^ }(]*)?)', path)
            span = path[path.index('@') + 1:]
            span = re.sub(r' \(#\d+\)\}?$', '', span).rstrip('}')
            body = self.closure_by_span.get('coroutine@' + span)
            if body is None:
                body = func.name + '::{closure#0}'
                if body not in self.crate.index:
                    raise Unsupported('coroutine body not found for ' + path)
            return Coroutine(body, vals)
        if kind == 'closure':
            span = path[path.index('@') + 1:].rstrip('}')
            span = re.sub(r' \(#\d+\)$', '', span)
            body = self.closure_by_span.get('closure@' + span)
            if body is None:
                raise Unsupported('closure body not found for ' + path)
            return Closure(body, vals)
        if path.endswith(('::__ignore',)) or '::__Field::__field' in path:
            # serde-derive's field/variant identifier enum (`__field0.. __fieldN, __ignore`), not in the source text: the
            # discriminant of `__fieldK` is K, `__ignore` follows the last field of the identifier visitor being executed
            # (equally named enums of one expansion differ in their number of fields, so nothing is cached)
            last = path.rsplit('::', 1)[-1]
            if last.startswith('__field') and last[7:].isdigit():
                return Adt('__Field', int(last[7:]), vals)
            if last == '__ignore' and self.fstack:
                return Adt('__Field', self._serde_field_count(self.fstack[-1]), vals)
        ent = self._agg_cache.get(path)
        if ent is None:
            p = strip_generics(path)
            parts = p.split('::')
            last = parts[-1]
            ent = (last, 0)
            if len(parts) >= 2:
                vi = self.variant_index(parts[-2], last)
                if vi is not None:
                    ent = (parts[-2], vi)
            self._agg_cache[path] = ent
        return Adt(ent[0], ent[1], vals)

    def _serde_field_count(self, f):
        """number of `__fieldK` variants of the identifier enum built by the serde-generated visitor body f"""
        c = self._agg_cache.get(('serde-fields', f.name, f.start))
        if c is None:
            lines = self.crate.lines
            k, mx = f.start + 1, -1
            while k < len(lines) and lines[k] != '}':
                for m in re.finditer(r'::__field(\d+)\b', lines[k]):
                    mx = max(mx, int(m.group(1)))
                k += 1
            c = mx + 1
            self._agg_cache[('serde-fields', f.name, f.start)] = c
        return c

    # ------------------------------------------------------------------ arithmetic
    def binop(self, op, a, b, ty):
        if isinstance(a, bool) and not isinstance(b, bool) and is_sym(b):
            a = z3.BoolVal(a)
        if isinstance(b, bool) and not isinstance(a, bool) and is_sym(a):
            b = z3.BoolVal(b)
        if op == 'Eq':
            return self._eq(a, b)
        if op == 'Ne':
            r = self._eq(a, b)
            return (not r) if isinstance(r, bool) else z3.Not(r)
        if op in ('Lt', 'Le', 'Gt', 'Ge') and not (isinstance(a, (int, float)) or is_sym(a)) or \
                op in ('Lt', 'Le', 'Gt', 'Ge') and not (isinstance(b, (int, float)) or is_sym(b)):
            raise Unsupported(f'ordered comparison {op} of {a!r} and {b!r}')
        if op == 'Lt':
            return a < b
        if op == 'Le':
            return a <= b
        if op == 'Gt':
            return a > b
        if op == 'Ge':
            return a >= b
        if op == 'Cmp':
            if isinstance(a, int) and isinstance(b, int):
                return Adt('Ordering', (a > b) - (a < b) + 1, [])
            if self.ctx.branch(a < b):
                return Adt('Ordering', 0, [])
            if self.ctx.branch(a == b):
                return Adt('Ordering', 1, [])
            return Adt('Ordering', 2, [])
        if op in ('AddWithOverflow', 'SubWithOverflow', 'MulWithOverflow'):
            if ty not in INT_BOUNDS:
                raise Unsupported(f'{op} on unknown integer type {ty}')
            lo, hi = INT_BOUNDS[ty]
            if op[0] == 'M' and is_sym(a) and is_sym(b):
                raise Unsupported('symbolic × symbolic multiplication')
            r = a + b if op[0] == 'A' else (a - b if op[0] == 'S' else a * b)
            if isinstance(r, int):
                return Tuple(wrap_int(r, ty), not (lo <= r <= hi))
            ovf = z3.Or(r < lo, r > hi)
            # decide the overflow flag now (keeps values linear): fork only if both feasible
            if self.ctx.branch(ovf):
                return Tuple(wrap_int(r, ty), True)
            return Tuple(r, False)
        if op in ('Add', 'Sub', 'Mul', 'AddUnchecked', 'SubUnchecked', 'MulUnchecked'):
            r = a + b if op[0] == 'A' else (a - b if op[0] == 'S' else a * b)
            if ty in INT_BOUNDS:
                if isinstance(r, int):
                    return wrap_int(r, ty)
                lo, hi = INT_BOUNDS[ty]
                if self.ctx.branch(z3.Or(r < lo, r > hi)):
                    return wrap_int(r, ty)
                return r
            if isinstance(r, int):
                return r
            raise Unsupported(f'{op} on unknown integer type')
        if op in ('Div', 'Rem'):
            if isinstance(a, int) and isinstance(b, int):
                if b == 0:
                    raise Panic('division by zero')
                q = abs(a) // abs(b)
                if (a < 0) != (b < 0):
                    q = -q
                return q if op == 'Div' else a - q * b
            if isinstance(b, int) and b > 0 and ty in INT_BOUNDS and INT_BOUNDS[ty][0] == 0:
                return a / b if op == 'Div' else a % b
            raise Unsupported('symbolic signed division')
        if op in ('BitAnd', 'BitOr', 'BitXor'):
            if isinstance(a, bool) and isinstance(b, bool):
                return {'BitAnd': a and b, 'BitOr': a or b, 'BitXor': a != b}[op]
            if (isinstance(a, bool) or (is_sym(a) and z3.is_bool(a))) and (isinstance(b, bool) or (is_sym(b) and z3.is_bool(b))):
                return {'BitAnd': z3.And, 'BitOr': z3.Or, 'BitXor': z3.Xor}[op](a, b)
            if isinstance(a, int) and isinstance(b, int):
                return {'BitAnd': a & b, 'BitOr': a | b, 'BitXor': a ^ b}[op]
            raise Unsupported('symbolic bit operation')
        if op in ('Shl', 'Shr', 'ShlUnchecked', 'ShrUnchecked'):
            if isinstance(a, int) and isinstance(b, int):
                r = a << b if op.startswith('Shl') else a >> b
                return wrap_int(r, ty) if ty in INT_BOUNDS else r
            raise Unsupported('symbolic shift')
        if op == 'Offset':
            raise Unsupported('pointer offset')
        raise Unsupported('binop ' + op)

    @staticmethod
    def _eq(a, b):
        if isinstance(a, Adt) and isinstance(b, Adt):   # fieldless enum compare
            return a.variant == b.variant
        r = a == b
        return r

    # ------------------------------------------------------------------ futures
    def poll_future(self, fut, cx=None):
        """poll a future value once: returns Poll Adt"""
        from .models import core as mcore
        return mcore.poll_value(self, fut, cx or Opaque('cx'))

    def block_on(self, fut):
        """drive a future whose leaves are always ready"""
        r = self.poll_future(fut)
        if r.variant != 0:
            raise Unsupported('future pending in block_on')
        return r.fields[0]


class Frame(dict):
    __slots__ = ('fname',)

    def __init__(self, fname):
        super().__init__()
        self.fname = fname

    def __missing__(self, k):
        return None
