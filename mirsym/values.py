"""Value representations for the MIR symbolic interpreter."""
import z3


class Adt:
    """struct / enum variant / tuple.  `name` is the last path segment of the type ('tuple' for tuples)."""
    __slots__ = ('name', 'variant', 'fields')

    def __init__(self, name, variant, fields):
        self.name, self.variant, self.fields = name, variant, fields

    def __repr__(self):
        return f"{self.name}#{self.variant}{self.fields}"


class Coroutine:
    """a lowered async block / async fn body: state discriminant + upvars + saved locals"""

    def __init__(self, body, upvars):
        self.body, self.fields, self.state, self.saved = body, upvars, 0, {}

    def __repr__(self):
        return f"<coroutine {self.body} st={self.state}>"


class Closure:
    def __init__(self, body, upvars):
        self.body, self.fields = body, upvars

    def __repr__(self):
        return f"<closure {self.body}>"


class LV:
    """an lvalue: container + key (dict / list)"""
    __slots__ = ('c', 'k')

    def __init__(self, c, k):
        self.c, self.k = c, k

    def get(self):
        return self.c[self.k]

    def set(self, v):
        self.c[self.k] = v


class SavedLV(LV):
    """lvalue inside a coroutine's saved-locals dict (missing = uninitialised)"""
    __slots__ = ()

    def get(self):
        return self.c.get(self.k)


class Ref:
    __slots__ = ('lv',)

    def __init__(self, lv):
        self.lv = lv

    def __repr__(self):
        try:
            return f"&{self.lv.get()!r}"
        except Exception:
            return '&?'


def mkref(v):
    return Ref(LV([v], 0))


class BoxV:
    def __init__(self, v):
        self.cell = [v]

    def __repr__(self):
        return f"Box({self.cell[0]!r})"


class PyVec:
    """Vec<T> / [T; N] / the target of a whole-vector slice"""

    def __init__(self, items):
        self.items = items

    def __repr__(self):
        return f"Vec{self.items!r}"


class PySlice:
    """&[T] view onto items[start:end] of a PyVec (read-only snapshot semantics for iteration,
    element refs point into the base)"""

    def __init__(self, base, start, end):
        self.base, self.start, self.end = base, start, end

    @property
    def items(self):
        return self.base.items[self.start:self.end]

    def ref_items(self):
        return [Ref(LV(self.base.items, i)) for i in range(self.start, self.end)]

    def __repr__(self):
        return f"Slice{self.items!r}"


class PyMap:
    """HashMap / HashSet / BTreeMap as an association list with possibly symbolic keys.
    Invariant: keys are pairwise distinct under the current path condition."""

    def __init__(self, items=None, kind='map'):
        self.items = items if items is not None else []
        self.kind = kind

    def __repr__(self):
        return f"Map{self.items!r}"


class FnItem:
    def __init__(self, path):
        self.path = path

    def __repr__(self):
        return f"<fn {self.path}>"


class Opaque:
    """a value whose content never matters (formatter args, log records, contexts...)"""

    def __init__(self, what=''):
        self.what = what

    def __repr__(self):
        return f"<opaque {str(self.what)[:40]}>"


class Bytes:
    """an abstract byte string: either concrete python bytes, or a tagged structured payload
    (e.g. ('json', value) / ('sealed', ...)); equality is structural."""

    def __init__(self, tag, payload):
        self.tag, self.payload = tag, payload

    def __repr__(self):
        return f"Bytes<{self.tag}:{self.payload!r}>"


class TokStr:
    """abstract string token: equality via an integer id term, length via the uninterpreted
    function strlen(id).  Supports ==, clone, len only."""
    __slots__ = ('id',)

    def __init__(self, idterm):
        self.id = idterm

    def __repr__(self):
        return f"TokStr({self.id})"


STRLEN = z3.Function('strlen', z3.IntSort(), z3.IntSort())


class ZStr:
    """z3 sequence-theory string"""
    __slots__ = ('t',)

    def __init__(self, t):
        self.t = t

    def __repr__(self):
        return f"ZStr({self.t})"


class NumStr:
    """the canonical decimal rendering of an integer term ('-' sign for negatives, no leading zeros, no '+').
    Digit strings and integers are in bijection, so parsing and comparing stay in integer arithmetic."""
    __slots__ = ('v',)

    def __init__(self, v):
        self.v = v

    def __repr__(self):
        return f"NumStr({self.v})"


class SegStr:
    """a string made of literal pieces and 32-hex-digit uuid pieces: list of str | ('uuid', term)"""
    __slots__ = ('segs',)

    def __init__(self, segs):
        out = []
        for s in segs:
            if isinstance(s, str):
                if not s:
                    continue
                if out and isinstance(out[-1], str):
                    out[-1] += s
                    continue
            out.append(s)
        self.segs = out

    def length(self):
        n = 0
        for s in self.segs:
            if isinstance(s, str):
                n += len(s.encode())
            elif s[0] == 'uuid':
                n += 32
            elif s[0] == 'uuidh':
                n += 36
            else:
                raise ValueError('variable-length segment')
        return n

    def __repr__(self):
        return f"SegStr({self.segs})"


def Some(v):
    return Adt('Option', 1, [v])


def NONE():
    return Adt('Option', 0, [])


def Ok(v):
    return Adt('Result', 0, [v])


def Err(v):
    return Adt('Result', 1, [v])


def Tuple(*v):
    return Adt('tuple', 0, list(v))


def UNIT():
    return Adt('tuple', 0, [])


def is_sym(v):
    return isinstance(v, z3.ExprRef)


def copy_val(v):
    if isinstance(v, Adt):
        return Adt(v.name, v.variant, [copy_val(f) for f in v.fields])
    if isinstance(v, PyVec):   # arrays are Copy when their elements are
        return PyVec([copy_val(x) for x in v.items])
    return v


def clone_val(v):
    """Clone::clone semantics (deep copy of owned data)"""
    if isinstance(v, Adt):
        return Adt(v.name, v.variant, [clone_val(f) for f in v.fields])
    if isinstance(v, PyVec):
        return PyVec([clone_val(x) for x in v.items])
    if isinstance(v, PySlice):
        return PyVec([clone_val(x) for x in v.items])
    if isinstance(v, PyMap):
        return PyMap([[clone_val(k), clone_val(x)] for k, x in v.items], v.kind)
    if isinstance(v, BoxV):
        return BoxV(clone_val(v.cell[0]))
    if isinstance(v, Ref):
        return v    # &T: Clone copies the reference
    return v


def deref(v):
    while True:
        if isinstance(v, Ref):
            v = v.lv.get()
        elif isinstance(v, BoxV):
            v = v.cell[0]
        else:
            return v


def deref1(v):
    """strip references only"""
    while isinstance(v, Ref):
        v = v.lv.get()
    return v
