"""Parser for rustc's textual MIR (`-Zunpretty=mir`) as emitted by the pinned nightly.

Only the subset the crate produces is recognised; anything else raises Unsupported, which the
checks report as INCONCLUSIVE (exit 3), never as a pass.
"""
import re


class Unsupported(Exception):
    """The engine cannot interpret something (unparsable MIR, unmodelled callee...)."""


# ----------------------------------------------------------------------------- helpers

def split_top(s, sep=','):
    """split s at top-level separators, respecting () [] {} <> and string literals"""
    out, depth, cur, i, n = [], 0, [], 0, len(s)
    while i < n:
        c = s[i]
        if c == '"':
            j = i + 1
            while j < n and s[j] != '"':
                j += 2 if s[j] == '\\' else 1
            cur.append(s[i:j + 1])
            i = j + 1
            continue
        if c == "'" and i + 2 < n and (s[i + 2] == "'" or (s[i + 1] == '\\')):
            # char literal 'x' or '\n'
            j = s.index("'", i + 2 if s[i + 1] != '\\' else i + 3)
            cur.append(s[i:j + 1])
            i = j + 1
            continue
        if c in '([{':
            depth += 1
        elif c in ')]}':
            depth -= 1
        elif c == '<':
            depth += 1
        elif c == '>' and not (i > 0 and s[i - 1] in '-='):
            depth -= 1
        if c == sep and depth == 0:
            out.append(''.join(cur).strip())
            cur = []
        else:
            cur.append(c)
        i += 1
    t = ''.join(cur).strip()
    if t:
        out.append(t)
    return out


import functools


@functools.lru_cache(maxsize=None)
def strip_generics(p):
    """remove every <...> group (bracket aware, '->' and '=>' are not brackets) that follows '::'
    (turbofish) or an identifier; leading '<T as Trait>' qualified-self groups are kept."""
    out, i, n = [], 0, len(p)
    while i < n:
        c = p[i]
        if c == '<' and i > 0 and (p[i - 1].isalnum() or p[i - 1] in '_:'):
            d, j = 0, i
            while j < n:
                cj = p[j]
                if cj == '<':
                    d += 1
                elif cj == '>' and p[j - 1] not in '-=':
                    d -= 1
                    if d == 0:
                        break
                j += 1
            if out and out[-1] == ':' and len(out) > 1 and out[-2] == ':':
                out.pop()
                out.pop()
            i = j + 1
            continue
        out.append(c)
        i += 1
    return ''.join(out)


def skip_brace(s, i):
    """s[i] == '{'; return index just after the matching '}'"""
    d = 0
    while True:
        if s[i] == '{':
            d += 1
        elif s[i] == '}':
            d -= 1
            if d == 0:
                return i + 1
        i += 1


class Place:
    __slots__ = ('base', 'proj')

    def __init__(self, base, proj):
        self.base, self.proj = base, proj

    def __repr__(self):
        return f"_{self.base}{self.proj}"


_re_local = re.compile(r'_(\d+)')
_re_field = re.compile(r'\.(\d+): ')


def _skip_type(s, i):
    """s[i:] is a type followed by ')' at depth 0; return index of that ')'"""
    d = 0
    n = len(s)
    while i < n:
        c = s[i]
        if c in '([{':
            d += 1
        elif c in ')]}':
            if d == 0 and c == ')':
                return i
            d -= 1
        i += 1
    raise Unsupported('type end? ' + s)


def parse_place(s, i=0):
    if s[i] == '_':
        m = _re_local.match(s, i)
        pl = Place(int(m.group(1)), ())
        i = m.end()
    elif s[i] == '(':
        if s[i + 1] == '*':
            pl, i = parse_place(s, i + 2)
            if s[i] != ')':
                raise Unsupported('place? ' + s)
            pl = Place(pl.base, pl.proj + (('deref',),))
            i += 1
        else:
            pl, i = parse_place(s, i + 1)
            if s.startswith(' as ', i):
                j = _skip_type(s, i + 4)
                pl = Place(pl.base, pl.proj + (('downcast', s[i + 4:j]),))
                i = j + 1
            elif s[i] == '.':
                m = _re_field.match(s, i)
                j = _skip_type(s, m.end())
                pl = Place(pl.base, pl.proj + (('field', int(m.group(1)), s[m.end():j]),))
                i = j + 1
            else:
                raise Unsupported('place? ' + s)
    else:
        raise Unsupported('place? ' + s[i:])
    while i < len(s) and s[i] == '[':
        j = s.index(']', i)
        inner = s[i + 1:j]
        if inner.startswith('_'):
            pl = Place(pl.base, pl.proj + (('index', int(inner[1:])),))
        else:
            m = re.match(r'(-?\d+) of (\d+)$', inner)
            if m:
                pl = Place(pl.base, pl.proj + (('cindex', int(m.group(1)), False),))
            else:
                m = re.match(r'(\d*):(-?\d*)$', inner)
                if not m:
                    raise Unsupported('index? ' + s)
                a = int(m.group(1)) if m.group(1) else 0
                b = m.group(2)
                pl = Place(pl.base, pl.proj + (('subslice', a, int(b) if b else None),))
        i = j + 1
    return pl, i


def parse_operand(s):
    s = s.strip()
    if s.startswith('copy '):
        pl, i = parse_place(s, 5)
        if i != len(s):
            raise Unsupported('operand? ' + s)
        return ('copy', pl)
    if s.startswith('move '):
        pl, i = parse_place(s, 5)
        if i != len(s):
            raise Unsupported('operand? ' + s)
        return ('move', pl)
    if s.startswith('const '):
        return ('const', s[6:])
    return ('const', s)


BINOPS = {'Eq', 'Ne', 'Lt', 'Le', 'Gt', 'Ge', 'Add', 'Sub', 'Mul', 'Div', 'Rem', 'BitAnd', 'BitOr', 'BitXor',
          'Shl', 'Shr', 'Offset', 'Cmp', 'AddWithOverflow', 'SubWithOverflow', 'MulWithOverflow',
          'AddUnchecked', 'SubUnchecked', 'MulUnchecked', 'ShlUnchecked', 'ShrUnchecked'}

_re_call_like = re.compile(r'(\w+)\((.*)\)$')


def _top_level_split_adt(s):
    """find first '(' or ' {' at angle depth 0; return (head, kind, inner) or (s, None, None)"""
    depth = 0
    i, n = 0, len(s)
    while i < n:
        c = s[i]
        if c == '<':
            depth += 1
        elif c == '>' and s[i - 1] not in '-=':
            depth -= 1
        elif depth == 0 and c == '(':
            return s[:i], '(', s[i + 1:-1]
        elif depth == 0 and c == '{':
            if s.startswith(('{closure', '{coroutine', '{async', '{impl'), i):
                i = skip_brace(s, i)
                continue
            if s[i - 1] == ' ':
                return s[:i].strip(), '{', s[i + 1:-1].strip()
        i += 1
    return s, None, None


def parse_rvalue(s):
    s = s.strip()
    if s.startswith('no_retag '):
        s = s[9:]
    for pre in ('&raw const ', '&raw mut ', '&mut ', '&fake shallow ', '&'):
        if s.startswith(pre):
            pl, i = parse_place(s, len(pre))
            if i != len(s):
                raise Unsupported('ref rvalue? ' + s)
            return ('ref', pl)
    if s.startswith(('copy ', 'move ')):
        pl, i = parse_place(s, 5)
        rest = s[i:]
        if rest.startswith(' as '):
            return ('cast', (s[:4], pl), rest[4:])
        if rest:
            raise Unsupported('rvalue? ' + s)
        return ('use', (s[:4], pl))
    if s.startswith('const '):
        if not s.startswith('const "') and s.endswith(')'):
            m = re.match(r'const (.*) as (.*) \((\w+)(\(.*\))?\)$', s)
            if m:
                return ('cast', ('const', m.group(1)), m.group(2) + ' (' + m.group(3) + ')')
        return ('use', ('const', s[6:]))
    if s.startswith('discriminant('):
        return ('discr', parse_place(s, 13)[0])
    if s.startswith('Len('):
        return ('len', parse_place(s, 4)[0])
    if s.startswith('PtrMetadata('):
        return ('ptrmeta', parse_operand(s[12:-1]))
    if s.startswith('CopyForDeref('):
        return ('use', ('copy', parse_place(s, 13)[0]))
    m = _re_call_like.match(s)
    if m and m.group(1) in BINOPS:
        a, b = split_top(m.group(2))
        return ('binop', m.group(1), parse_operand(a), parse_operand(b))
    if m and m.group(1) in ('Not', 'Neg'):
        return ('unop', m.group(1), parse_operand(m.group(2)))
    if m and m.group(1) in ('SizeOf', 'AlignOf', 'ShallowInitBox', 'UbChecks', 'ContractChecks', 'OverflowChecks'):
        return ('nullop', m.group(1), m.group(2))
    if s.startswith('('):
        inner = s[1:-1]
        return ('agg', 'tuple', None, [parse_operand(x) for x in split_top(inner)])
    if s.startswith('['):
        inner = s[1:-1]
        parts = split_top(inner, ';')
        if len(parts) == 2:
            return ('repeat', parse_operand(parts[0]), parts[1].strip())
        return ('agg', 'array', None, [parse_operand(x) for x in split_top(inner)])
    if s.startswith(('{closure@', '{coroutine@', '{async')):
        j = skip_brace(s, 0) - 1
        head, rest = s[:j + 1], s[j + 1:].strip()
        ops = []
        if rest:
            for f in split_top(rest[1:-1].strip()):
                ops.append(parse_operand(f.split(': ', 1)[1]))
        kind = 'closure' if head.startswith('{closure') else 'coroutine'
        return ('agg', kind, head, ops)
    head, kind, inner = _top_level_split_adt(s)
    if kind == '(':
        return ('agg', 'adt', head, [parse_operand(x) for x in split_top(inner)])
    if kind == '{':
        fields = split_top(inner)
        return ('agg', 'adt', head, [parse_operand(f.split(': ', 1)[1]) for f in fields])
    return ('agg', 'adt', s, [])


def parse_targets(s):
    s = s.strip()
    d = {}
    if s.startswith('['):
        for part in split_top(s[1:-1]):
            if ': ' not in part:
                continue
            k, v = part.split(': ', 1)
            d[k.strip()] = v.strip()
    return d


_SKIP = ('StorageLive', 'StorageDead', 'nop', 'FakeRead', 'PlaceMention', 'AscribeUserType',
         'Retag', 'Coverage', 'ConstEvalCounter', 'Deinit', 'BackwardIncompatibleDropHint')

_re_call_tail = re.compile(r' -> (\[return: .*\]|unwind \w+|\[unwind: .*\])$')


def _split_call(body):
    """body = 'func(args)' with possibly nested generics/closure types in func; returns (func, args_str)"""
    depth = 0
    i, n = 0, len(body)
    while i < n:
        c = body[i]
        if c == '<':
            depth += 1
        elif c == '>' and body[i - 1] not in '-=':
            depth -= 1
        elif c == '{':
            bd, j = 0, i
            while True:
                if body[j] == '{':
                    bd += 1
                elif body[j] == '}':
                    bd -= 1
                    if bd == 0:
                        break
                j += 1
            i = j + 1
            continue
        elif c == '(' and depth == 0:
            # matching close must be the final char
            return body[:i].strip(), body[i + 1:-1]
        i += 1
    raise Unsupported('call? ' + body)


def parse_stmt(line):
    line = line.strip()
    if line.startswith('//'):
        return None
    if not line.endswith(';'):
        raise Unsupported('stmt without ; : ' + line)
    line = line[:-1]
    if line.startswith(_SKIP):
        return None
    if line == 'return':
        return ('return',)
    if line == 'unreachable':
        return ('unreachable',)
    if line.startswith('resume') or line.startswith('unwind terminate') or line.startswith('terminate'):
        return ('resume',)
    if line.startswith('goto -> '):
        return ('goto', line[8:])
    if line.startswith('switchInt('):
        i = line.rindex(') -> [')
        return ('switch', parse_operand(line[10:i]), parse_targets(line[i + 5:]))
    if line.startswith('drop('):
        i = line.rindex(') -> ')
        return ('drop', parse_place(line, 5)[0], parse_targets(line[i + 5:]))
    if line.startswith('assert('):
        i = line.rindex(') -> ')
        inner = split_top(line[7:i])
        c = inner[0]
        neg = c.startswith('!')
        return ('assert', neg, parse_operand(c[1:] if neg else c), ', '.join(inner[1:]),
                parse_targets(line[i + 5:]))
    if line.startswith('discriminant('):
        m = re.match(r'discriminant\((.*)\) = (\d+)$', line)
        return ('setdiscr', parse_place(m.group(1))[0], int(m.group(2)))
    if line.startswith('yield'):
        raise Unsupported('yield terminator (pre-lowering MIR?)')
    if line.startswith(('falseEdge', 'falseUnwind', 'tailcall', 'asm!', 'InlineAsm')):
        raise Unsupported('terminator ' + line)
    m = _re_call_tail.search(line)
    if m:
        body = line[:m.start()]
        tg = parse_targets(m.group(1))
        dest = None
        if body[0] in '_(':
            try:
                pl, i = parse_place(body, 0)
            except Unsupported:
                pl, i = None, 0
            if pl is not None and body.startswith(' = ', i):
                dest, body = pl, body[i + 3:]
        func, args = _split_call(body)
        return ('call', dest, func, [parse_operand(a) for a in split_top(args)], tg)
    pl, i = parse_place(line, 0)
    if not line.startswith(' = ', i):
        raise Unsupported('stmt? ' + line)
    return ('assign', pl, parse_rvalue(line[i + 3:]))


class Func:
    __slots__ = ('name', 'nargs', 'argtypes', 'ret', 'locals', 'blocks', 'header', 'span', 'self_byref', 'start')

    def __init__(self):
        self.locals = {}
        self.blocks = {}


_re_bb = re.compile(r'\s+(bb\d+)(?: \(cleanup\))?: \{$')
_re_let = re.compile(r'\s+let (?:mut )?_(\d+): (.*);$')


class MirCrate:
    """index of all functions in a MIR dump, parsed lazily"""

    def __init__(self, path):
        self.text = open(path).read()
        self.lines = self.text.split('\n')
        self.index = {}      # name -> list of (start, end)
        self.consts = {}     # promoted / const items by name -> (start,end)
        self.allocs = {}
        self.simple_consts = {}
        self.static_allocs = {}
        self._cache = {}
        self._scan()

    def _scan(self):
        lines = self.lines
        i, n = 0, len(lines)
        while i < n:
            l = lines[i]
            if l.startswith('fn '):
                j = i
                while lines[j] != '}':
                    j += 1
                p = l.index('(')
                # name may contain '(' in '<impl at ...>'? no; but closures: name::{closure#0}(
                name = self._fn_name(l)
                self.index.setdefault(name, []).append((i, j))
                i = j
            elif l.rstrip().endswith('= {') and (l.startswith(('const ', 'static ')) or 'promoted[' in l):
                j = i
                while lines[j] != '}':
                    j += 1
                head = l.rstrip()[:-len(' = {')]
                if head.startswith('const '):
                    head = head[6:]
                elif head.startswith('static mut '):
                    head = head[11:]
                elif head.startswith('static '):
                    head = head[7:]
                nm = head.rsplit(': ', 1)[0]
                m = re.match(r'(promoted\[\d+\]) in (.*)$', nm)
                if m:
                    nm = m.group(2) + '::' + m.group(1)
                self.consts[nm] = (i, j)
                i = j
            elif l.startswith('const ') and l.rstrip().endswith(';') and ' = const ' in l:
                m = re.match(r'const (.*?): (.*?) = const (.*);$', l.rstrip())
                if m and m.group(3) != '()':
                    self.simple_consts[m.group(1)] = m.group(3)
            elif l.startswith('alloc') and re.match(r'alloc\d+ \(static: ', l):
                m = re.match(r'(alloc\d+) \(static: ([\w:]+)', l)
                self.static_allocs[m.group(1)] = m.group(2)
                j = i + 1
                while lines[j] != '}':
                    j += 1
                i = j
            elif l.startswith('alloc') and l.rstrip().endswith('{}'):
                pass
            elif l.startswith('alloc') and '(size:' in l:
                m = re.match(r'(alloc\d+) \(size: (\d+)', l)
                j = i + 1
                data = []
                while lines[j] != '}':
                    data.append(lines[j])
                    j += 1
                self.allocs[m.group(1)] = (int(m.group(2)), data)
                i = j
            i += 1

    @staticmethod
    def _fn_name(header):
        # 'fn NAME(' where NAME may contain '<impl at a:b: c:d>' and generics; find '(' at depth 0
        s = header[3:]
        depth = 0
        for k, c in enumerate(s):
            if c == '<':
                depth += 1
            elif c == '>' and s[k - 1] not in '-=':
                depth -= 1
            elif c == '(' and depth == 0:
                return s[:k]
        raise Unsupported('fn header? ' + header)

    def func(self, name, which=0):
        key = (name, which)
        f = self._cache.get(key)
        if f is None:
            a, b = self.index[name][which]
            f = self._parse_fn(name, a, b)
            self._cache[key] = f
        return f

    def _parse_fn(self, name, a, b):
        lines = self.lines
        f = Func()
        f.name = name
        f.start = a          # line of the header in the dump: tells apart equally named bodies (derive output)
        h = lines[a]
        f.header = h
        s = h[3 + len(name):]
        # s = '(args) -> ret {'
        d = 0
        for k, c in enumerate(s):
            if c in '([{':
                d += 1
            elif c in ')]}':
                d -= 1
                if d == 0:
                    break
        argstr = s[1:k]
        rest = s[k + 1:].strip()
        f.ret = rest[3:-2].strip() if rest.startswith('->') else '()'
        f.argtypes = []
        for part in split_top(argstr):
            m = re.match(r'_(\d+): (.*)$', part)
            if not m:
                raise Unsupported('arg? ' + part)
            f.argtypes.append(m.group(2))
            f.locals[int(m.group(1))] = m.group(2)
        f.nargs = len(f.argtypes)
        f.self_byref = bool(f.argtypes) and f.argtypes[0].startswith('&')
        cur = None
        for k in range(a + 1, b):
            l = lines[k]
            m = _re_bb.match(l)
            if m:
                cur = []
                f.blocks[m.group(1)] = cur
                continue
            if cur is not None:
                if l.strip() == '}':
                    cur = None
                    continue
                try:
                    st = parse_stmt(l)
                except Unsupported as e:
                    st = ('unsupported', str(e))
                except Exception as e:  # noqa
                    st = ('unsupported', f'{type(e).__name__}: {e} in: {l.strip()}')
                if st:
                    cur.append(st)
            else:
                m = _re_let.match(l)
                if m:
                    f.locals[int(m.group(1))] = m.group(2)
        return f

    def const_body(self, name):
        a, b = self.consts[name]
        f = self._parse_fn(name, a, b) if False else None
        return a, b

    def parse_const(self, name):
        key = ('const', name)
        f = self._cache.get(key)
        if f is None:
            a, b = self.consts[name]
            f = Func()
            f.name = name
            f.header = self.lines[a]
            f.nargs = 0
            f.argtypes = []
            f.ret = ''
            f.self_byref = False
            cur = None
            for k in range(a + 1, b):
                l = self.lines[k]
                m = _re_bb.match(l)
                if m:
                    cur = []
                    f.blocks[m.group(1)] = cur
                    continue
                if cur is not None:
                    if l.strip() == '}':
                        cur = None
                        continue
                    try:
                        st = parse_stmt(l)
                    except Unsupported as e:
                        st = ('unsupported', str(e))
                    if st:
                        cur.append(st)
                else:
                    m = _re_let.match(l)
                    if m:
                        f.locals[int(m.group(1))] = m.group(2)
            self._cache[key] = f
        return f


if __name__ == '__main__':
    import sys
    c = MirCrate(sys.argv[1])
    bad = 0
    nst = 0
    for name, lst in c.index.items():
        for w in range(len(lst)):
            f = c.func(name, w)
            for bb, sts in f.blocks.items():
                for st in sts:
                    nst += 1
                    if st[0] == 'unsupported':
                        bad += 1
                        print(name, bb, st[1][:200])
    print(len(c.index), 'functions', nst, 'statements', bad, 'unsupported;', len(c.consts), 'consts', len(c.allocs), 'allocs')
