"""Ideal model of ring's primitives at the call boundary used by src/server/encryption.rs.

Byte strings stay `PyVec`s; the elements produced by the primitives are opaque byte objects that refer to a
record of the call that produced them:
  KdfByte(k, i)  i-th byte of PBKDF2(alg, iterations, salt, secret)          (record k)
  CtByte(s, i)   i-th byte of the AEAD ciphertext of seal record s
  TagByte(s, i)  i-th byte of its authentication tag
  CtBlob(s)      the whole ciphertext when the plaintext is an abstract payload (e.g. a JSON document)
open succeeds iff the bytes are exactly ciphertext+tag of one seal record and key, nonce and AAD are equal to
the ones of that record (the textbook AEAD contract: any modification, truncation or context mismatch is
rejected).  Random bytes are fresh integer terms in 0..255."""
import z3

from . import REGISTRY as R
from .core import val_eq, z_and, z_all, z_any, z_not, generic_args, qself
from ..parser import Unsupported, strip_generics
from ..values import (Adt, LV, Ref, BoxV, PyVec, PySlice, Opaque, Bytes, Some, NONE, Ok, Err, Tuple, UNIT, is_sym,
                      deref, deref1, mkref, clone_val)
from ..explore import Panic


class ByteObj:
    """opaque byte element"""
    kind = '?'

    def __init__(self, rec, i):
        self.rec, self.i = rec, i

    def eq_model(self, other):
        if type(other) is not type(self):
            return False
        if self.i != other.i:
            return False
        if self.rec is other.rec:
            return True
        return self.rec.same(other.rec)

    def __repr__(self):
        return f'{self.kind}{self.rec.id}[{self.i}]'


class KdfByte(ByteObj):
    kind = 'kdf'


class CtByte(ByteObj):
    kind = 'ct'


class TagByte(ByteObj):
    kind = 'tag'


class CtBlob(ByteObj):
    kind = 'ctblob'


class UuidByte:
    """i-th byte of a uuid (equal iff same position and same uuid: byte-wise coincidences between different
    uuids are not modelled)"""

    def __init__(self, u, i):
        self.u, self.i = u, i

    def eq_model(self, other):
        if not isinstance(other, UuidByte) or other.i != self.i:
            return False
        return self.u == other.u

    def __repr__(self):
        return f'uuid({self.u})[{self.i}]'


class Record:
    n = 0

    def __init__(self, **kw):
        Record.n += 1
        self.id = Record.n
        self.__dict__.update(kw)


class KdfRecord(Record):
    def same(self, o):
        key = o.id
        cache = self.__dict__.setdefault('_same', {})
        if key not in cache:
            cache[key] = z_all([val_eq(self.alg, o.alg), val_eq(self.iterations, o.iterations), val_eq(self.salt, o.salt),
                                val_eq(self.secret, o.secret)])
        return cache[key]


class SealRecord(Record):
    def same(self, o):
        return self is o


def crypto_log(I):
    return I.env.setdefault('crypto_log', {'kdf': [], 'seal': [], 'open': [], 'rand': []})


def as_list(v):
    v = deref(v)
    if isinstance(v, (PyVec, PySlice)):
        return list(v.items)
    if isinstance(v, Bytes):
        return [v]
    raise Unsupported('bytes expected, got ' + repr(v))


@R.const_model(r'ring::aead::NONCE_LEN$')
def c_nonce_len(I, c):
    return 12


@R.model(r'^ring::aead::Algorithm::key_len$')
def m_key_len(I, path, args):
    return 32


@R.model(r'^SystemRandom::new$', r'^ring::rand::SystemRandom::new$')
def m_rng_new(I, path, args):
    return Adt('SystemRandom', 0, [])


@R.model(r'^<SystemRandom as SecureRandom>::fill$')
def m_rng_fill(I, path, args):
    """SecureRandom::fill: every byte a fresh term in 0..255 (harness hook 'rand_fail' may make it fail)"""
    dest = deref1(args[1])
    hook = I.env.get('rand_fail')
    if hook is not None and hook(I):
        return Err(Adt('Unspecified', 0, []))
    n = len(dest.items)
    lst = dest.items if isinstance(dest, PyVec) else None
    terms = []
    pick = I.env.get('rand_byte')
    for i in range(n):
        t = pick(I, n, i) if pick is not None else None
        if t is None:
            t = I.ctx.fresh_int('rand', 0, 255)
        terms.append(t)
        if lst is not None:
            lst[i] = t
        else:
            dest.base.items[dest.start + i] = t
    crypto_log(I)['rand'].append(terms)
    obs = I.env.get('rand_observer')
    if obs is not None:
        obs(I, terms)
    return Ok(UNIT())


@R.model(r'^derive$', r'^ring::pbkdf2::derive$')
def m_pbkdf2_derive(I, path, args):
    alg, iters, salt, secret, out = args
    rec = KdfRecord(alg=deref(alg), iterations=deref(iters), salt=PyVec(as_list(salt)), secret=PyVec(as_list(secret)))
    crypto_log(I)['kdf'].append(rec)
    o = deref1(out)
    n = len(o.items)
    for i in range(n):
        if isinstance(o, PyVec):
            o.items[i] = KdfByte(rec, i)
        else:
            o.base.items[o.start + i] = KdfByte(rec, i)
    return UNIT()


@R.model(r'^UnboundKey::new$')
def m_unbound_key(I, path, args):
    alg, key = deref(args[0]), as_list(args[1])
    if len(key) != 32:
        return Err(Adt('Unspecified', 0, []))
    return Ok(Adt('UnboundKey', 0, [alg, PyVec(key)]))


@R.model(r'^LessSafeKey::new$')
def m_less_safe_key(I, path, args):
    u = args[0]
    return Adt('LessSafeKey', 0, [u.fields[0], u.fields[1]])


@R.model(r'^Nonce::assume_unique_for_key$')
def m_nonce(I, path, args):
    return Adt('Nonce', 0, [PyVec(as_list(args[0]))])


@R.model(r'^Aad::from$', r'^<Aad as From>::from$')
def m_aad(I, path, args):
    return Adt('Aad', 0, [PyVec(as_list(args[0]))])


@R.model(r'^LessSafeKey::seal_in_place_separate_tag$')
def m_seal(I, path, args):
    key, nonce, aad, buf = deref1(args[0]), args[1], args[2], args[3]
    lv = buf.lv if isinstance(buf, Ref) else None
    cur = deref1(buf)
    if isinstance(cur, Bytes):
        plain = [cur]
        abstract = True
    else:
        plain = list(cur.items)
        abstract = False
    rec = SealRecord(alg=key.fields[0], key=key.fields[1], nonce=nonce.fields[0], aad=aad.fields[0], plain=plain,
                     abstract=abstract)
    crypto_log(I)['seal'].append(rec)
    ct = [CtBlob(rec, 0)] if abstract else [CtByte(rec, i) for i in range(len(plain))]
    if isinstance(cur, PyVec):
        cur.items[:] = ct
    elif lv is not None:
        lv.set(PyVec(ct))
    else:
        raise Unsupported('seal_in_place on ' + repr(cur))
    return Ok(Adt('Tag', 0, [PyVec([TagByte(rec, i) for i in range(16)])]))


@R.model(r'^<ring::aead::Tag as AsRef>::as_ref$', r'^<Tag as AsRef>::as_ref$', first=True)
def m_tag_as_ref(I, path, args):
    t = deref1(args[0])
    return mkref(t.fields[0])


@R.model(r'^LessSafeKey::open_in_place$')
def m_open(I, path, args):
    key, nonce, aad, buf = deref1(args[0]), args[1], args[2], deref1(args[3])
    items = list(buf.items)
    log = crypto_log(I)
    entry = {'ok': False}
    log['open'].append(entry)
    fail = Err(Adt('Unspecified', 0, []))
    if len(items) < 16:
        return fail
    body, tag = items[:-16], items[-16:]
    if not all(isinstance(t, TagByte) for t in tag):
        return fail
    rec = tag[0].rec
    if any(t.rec is not rec or t.i != k for k, t in enumerate(tag)):
        return fail
    n = 1 if rec.abstract else len(rec.plain)
    if len(body) != n:
        return fail
    for k, b in enumerate(body):
        want = CtBlob if rec.abstract else CtByte
        if not isinstance(b, want) or b.rec is not rec or b.i != k:
            return fail
    same = z_all([val_eq(key.fields[0], rec.alg), val_eq(key.fields[1], rec.key), val_eq(nonce.fields[0], rec.nonce),
                  val_eq(aad.fields[0], rec.aad)])
    if not I.ctx.branch(same):
        return fail
    entry['ok'] = True
    entry['rec'] = rec
    plain = list(rec.plain)
    # decrypt in place; the returned slice is the plaintext prefix
    if isinstance(buf, PyVec):
        buf.items[:] = plain + tag
        return Ok(PySlice(buf, 0, len(plain)))
    buf.base.items[buf.start:buf.end] = plain + tag
    return Ok(PySlice(buf.base, buf.start, buf.start + len(plain)))
