"""Lazy iterator protocol: python objects with next(I) -> Option Adt (and next_back where double-ended).
Adaptor closures are crate code and are called back into the interpreter."""
import z3

from . import REGISTRY as R
from .core import val_eq, val_lt, z_and, z_or, z_not, z_any, z_all, generic_args, qself
from ..parser import Unsupported, strip_generics
from ..values import (Adt, LV, Ref, BoxV, PyVec, PySlice, PyMap, Opaque, Closure, FnItem, TokStr, ZStr, Some, NONE, Ok,
                      Err, Tuple, UNIT, is_sym, copy_val, clone_val, deref, deref1, mkref)
from ..explore import Panic


class Iter:
    def next(self, I):
        raise NotImplementedError

    def next_back(self, I):
        raise Unsupported(f'{type(self).__name__} is not double-ended')

    def size_hint_exact(self):
        return None


class ListIter(Iter):
    def __init__(self, items):
        self.items, self.lo, self.hi = items, 0, len(items)

    def next(self, I):
        if self.lo < self.hi:
            self.lo += 1
            return Some(self.items[self.lo - 1])
        return NONE()

    def next_back(self, I):
        if self.lo < self.hi:
            self.hi -= 1
            return Some(self.items[self.hi])
        return NONE()

    def size_hint_exact(self):
        return self.hi - self.lo

    def remaining(self):
        return self.items[self.lo:self.hi]


class DrainIter(ListIter):
    pass


class MapIter(Iter):
    def __init__(self, src, f):
        self.src, self.f = src, f

    def next(self, I):
        x = self.src.next(I)
        return Some(I.call_value(self.f, [x.fields[0]])) if x.variant else x

    def next_back(self, I):
        x = self.src.next_back(I)
        return Some(I.call_value(self.f, [x.fields[0]])) if x.variant else x

    def size_hint_exact(self):
        return self.src.size_hint_exact()


class FilterIter(Iter):
    def __init__(self, src, f):
        self.src, self.f = src, f

    def _step(self, I, nxt):
        while True:
            x = nxt(I)
            if not x.variant:
                return x
            cell = [x.fields[0]]
            if I.ctx.branch(I.call_value(self.f, [Ref(LV(cell, 0))])):
                return Some(cell[0])

    def next(self, I):
        return self._step(I, self.src.next)

    def next_back(self, I):
        return self._step(I, self.src.next_back)


class FilterMapIter(Iter):
    def __init__(self, src, f):
        self.src, self.f = src, f

    def _step(self, I, nxt):
        while True:
            x = nxt(I)
            if not x.variant:
                return x
            r = I.call_value(self.f, [x.fields[0]])
            if r.variant:
                return r

    def next(self, I):
        return self._step(I, self.src.next)

    def next_back(self, I):
        return self._step(I, self.src.next_back)


class EnumerateIter(Iter):
    def __init__(self, src):
        self.src, self.n = src, 0

    def next(self, I):
        x = self.src.next(I)
        if not x.variant:
            return x
        self.n += 1
        return Some(Tuple(self.n - 1, x.fields[0]))

    def next_back(self, I):
        rem = self.src.size_hint_exact()
        if rem is None:
            raise Unsupported('enumerate().rev() over inexact iterator')
        x = self.src.next_back(I)
        if not x.variant:
            return x
        return Some(Tuple(self.n + rem - 1, x.fields[0]))

    def size_hint_exact(self):
        return self.src.size_hint_exact()


class RevIter(Iter):
    def __init__(self, src):
        self.src = src

    def next(self, I):
        return self.src.next_back(I)

    def next_back(self, I):
        return self.src.next(I)

    def size_hint_exact(self):
        return self.src.size_hint_exact()


class ZipIter(Iter):
    def __init__(self, a, b):
        self.a, self.b = a, b

    def next(self, I):
        x = self.a.next(I)
        if not x.variant:
            return x
        y = self.b.next(I)
        if not y.variant:
            return y
        return Some(Tuple(x.fields[0], y.fields[0]))

    def size_hint_exact(self):
        a, b = self.a.size_hint_exact(), self.b.size_hint_exact()
        return None if a is None or b is None else min(a, b)


class ChainIter(Iter):
    def __init__(self, a, b):
        self.a, self.b = a, b

    def next(self, I):
        if self.a is not None:
            x = self.a.next(I)
            if x.variant:
                return x
            self.a = None
        return self.b.next(I)


class SkipIter(Iter):
    def __init__(self, src, n):
        self.src, self.n = src, n

    def next(self, I):
        while self.n > 0:
            self.n -= 1
            x = self.src.next(I)
            if not x.variant:
                return x
        return self.src.next(I)

    def size_hint_exact(self):
        s = self.src.size_hint_exact()
        return None if s is None else max(0, s - self.n)


class TakeIter(Iter):
    def __init__(self, src, n):
        self.src, self.n = src, n

    def next(self, I):
        if self.n <= 0:
            return NONE()
        self.n -= 1
        return self.src.next(I)


class TakeWhileIter(Iter):
    def __init__(self, src, f):
        self.src, self.f, self.done = src, f, False

    def next(self, I):
        if self.done:
            return NONE()
        x = self.src.next(I)
        if not x.variant:
            return x
        cell = [x.fields[0]]
        if I.ctx.branch(I.call_value(self.f, [Ref(LV(cell, 0))])):
            return Some(cell[0])
        self.done = True
        return NONE()


class SkipWhileIter(Iter):
    def __init__(self, src, f):
        self.src, self.f, self.started = src, f, False

    def next(self, I):
        while True:
            x = self.src.next(I)
            if not x.variant or self.started:
                return x
            cell = [x.fields[0]]
            if not I.ctx.branch(I.call_value(self.f, [Ref(LV(cell, 0))])):
                self.started = True
                return Some(cell[0])


class CopiedIter(Iter):
    def __init__(self, src, clone):
        self.src, self.clone = src, clone

    def _cv(self, x):
        if not x.variant:
            return x
        v = deref1(x.fields[0])
        return Some(clone_val(v) if self.clone else copy_val(v))

    def next(self, I):
        return self._cv(self.src.next(I))

    def next_back(self, I):
        return self._cv(self.src.next_back(I))

    def size_hint_exact(self):
        return self.src.size_hint_exact()


class PeekableIter(Iter):
    def __init__(self, src):
        self.src, self.peeked = src, None

    def next(self, I):
        if self.peeked is not None:
            v, self.peeked = self.peeked, None
            return v
        return self.src.next(I)

    def peek(self, I):
        if self.peeked is None:
            self.peeked = self.src.next(I)
        return self.peeked


class FromFnIter(Iter):
    def __init__(self, f):
        self.f = f

    def next(self, I):
        return I.call_value(mkref(self.f) if isinstance(self.f, Closure) else self.f, [])


class SuccessorsIter(Iter):
    def __init__(self, first, f):
        self.cur, self.f = first, f

    def next(self, I):
        cur = self.cur
        if not cur.variant:
            return cur
        cell = [cur.fields[0]]
        self.cur = I.call_value(mkref(self.f) if isinstance(self.f, Closure) else self.f, [Ref(LV(cell, 0))])
        return Some(cell[0])


class StepByIter(Iter):
    def __init__(self, src, n):
        self.src, self.n, self.first = src, n, True

    def next(self, I):
        if self.first:
            self.first = False
            return self.src.next(I)
        for _ in range(self.n - 1):
            x = self.src.next(I)
            if not x.variant:
                return x
        return self.src.next(I)


class MapWhileIter(Iter):
    def __init__(self, src, f):
        self.src, self.f, self.done = src, f, False

    def next(self, I):
        if self.done:
            return NONE()
        x = self.src.next(I)
        if not x.variant:
            return x
        r = I.call_value(self.f, [x.fields[0]])
        if not r.variant:
            self.done = True
        return r


class ScanIter(Iter):
    def __init__(self, src, state, f):
        self.src, self.cell, self.f, self.done = src, [state], f, False

    def next(self, I):
        if self.done:
            return NONE()
        x = self.src.next(I)
        if not x.variant:
            return x
        r = I.call_value(self.f, [Ref(LV(self.cell, 0)), x.fields[0]])
        if not r.variant:
            self.done = True
        return r


def _try_break(r):
    """does a Try value (Result / Option / ControlFlow) short-circuit?"""
    r = deref1(r)
    if r.name == 'Option':
        return r.variant == 0
    return r.variant == 1


def _try_continue(path, sample, v):
    """wrap v as the 'continue' value of the Try type in use"""
    name = deref1(sample).name if sample is not None else ('Option' if 'Option<' in path and 'Result<' not in path else
                                                           'ControlFlow' if 'ControlFlow<' in path else 'Result')
    if name == 'Option':
        return Some(v)
    if name == 'ControlFlow':
        return Adt('ControlFlow', 0, [v])
    return Ok(v)


class FlattenIter(Iter):
    def __init__(self, src):
        self.src, self.cur = src, None

    def next(self, I):
        while True:
            if self.cur is not None:
                x = self.cur.next(I)
                if x.variant:
                    return x
                self.cur = None
            o = self.src.next(I)
            if not o.variant:
                return o
            self.cur = to_iter(I, o.fields[0])


class OnceIter(ListIter):
    pass


class CrateIter(Iter):
    """an iterator type defined in the crate (e.g. strum's EnumIter): next() is the crate's own impl"""

    def __init__(self, I, adt, prefix):
        self.adt, self.prefix = adt, prefix

    def next(self, I):
        return I.run(self.prefix + '::next', [mkref(self.adt)])

    def next_back(self, I):
        for (tr, ty), pre in I.impls.items():
            if tr == 'DoubleEndedIterator' and ty == self.adt.name:
                return I.run(pre[0] + '::next_back', [mkref(self.adt)])
        raise Unsupported('crate iterator is not double-ended')


def crate_iter(I, v):
    if isinstance(v, Adt):
        pre = I.impls.get(('Iterator', v.name))
        if pre:
            return CrateIter(I, v, pre[0])
    return None


def to_iter(I, v):
    """IntoIterator::into_iter"""
    if isinstance(v, Iter):
        return v
    if isinstance(v, PyVec):
        return ListIter(list(v.items))
    if isinstance(v, PySlice):
        return ListIter(v.ref_items())
    if isinstance(v, PyMap):
        if v.kind == 'set':
            return ListIter([e[0] for e in v.items])
        return ListIter([Tuple(e[0], e[1]) for e in v.items])
    if isinstance(v, Adt) and v.name == 'Option':
        return ListIter([v.fields[0]] if v.variant else [])
    if isinstance(v, Adt) and v.name in ('Range',):
        a, b = v.fields
        if is_sym(a) or is_sym(b):
            raise Unsupported('symbolic range iteration')
        return ListIter(list(range(a, b)))
    if isinstance(v, Adt) and v.name in ('RangeInclusive',):
        a, b = v.fields[0], v.fields[1]
        return ListIter(list(range(a, b + 1)))
    if isinstance(v, Ref):
        t = v.lv.get()
        if isinstance(t, PyVec):
            return ListIter([Ref(LV(t.items, i)) for i in range(len(t.items))])
        if isinstance(t, PySlice):
            return ListIter(t.ref_items())
        if isinstance(t, PyMap):
            if t.kind == 'set':
                return ListIter([Ref(LV(e, 0)) for e in t.items])
            return ListIter([Tuple(Ref(LV(e, 0)), Ref(LV(e, 1))) for e in t.items])
        if isinstance(t, Adt) and t.name == 'Option':
            return ListIter([Ref(LV(t.fields, 0))] if t.variant else [])
        if isinstance(t, Iter):
            return t
        if isinstance(t, Ref):
            return to_iter(I, t)
        if hasattr(t, 'iter_model'):
            return t.iter_model(I, True)
    if isinstance(v, Closure):
        return FromFnIter(v)
    if hasattr(v, 'iter_model'):
        return v.iter_model(I, False)
    ci = crate_iter(I, v)
    if ci is not None:
        return ci
    raise Unsupported('into_iter of ' + repr(v))


def drain_all(I, it):
    out = []
    while True:
        x = it.next(I)
        if not x.variant:
            return out
        out.append(x.fields[0])


def _it(a):
    v = a
    while isinstance(v, Ref):
        v = v.lv.get()
    if not isinstance(v, Iter):
        raise Unsupported('expected iterator, got ' + repr(v))
    return v


@R.model(r' as IntoIterator>::into_iter$')
def m_into_iter(I, path, args):
    return to_iter(I, args[0])


@R.model(r'^(core|std)::slice::(iter|iter_mut)$')
def m_slice_iter(I, path, args):
    return to_iter(I, args[0] if isinstance(args[0], Ref) else mkref(args[0])) if not isinstance(deref1(args[0]), PySlice) else ListIter(deref1(args[0]).ref_items())


@R.model(r'^(std::iter::)?successors$')
def m_successors(I, path, args):
    return SuccessorsIter(args[0], args[1])


@R.model(r'^std::iter::from_fn$')
def m_from_fn(I, path, args):
    return FromFnIter(args[0])


@R.model(r'^std::iter::(once|empty|repeat_n)$')
def m_once(I, path, args):
    if path.startswith('std::iter::empty'):
        return ListIter([])
    if 'repeat_n' in path:
        return ListIter([clone_val(args[0]) for _ in range(args[1])])
    return OnceIter([args[0]])


@R.model(r' as (Iterator|DoubleEndedIterator|ExactSizeIterator)>::\w+$', r'^Peekable::(next_if|peek|next_if_eq|peek_mut)$',
         r'^std::iter::Iterator::\w+$')
def m_iter_method(I, path, args):
    sp = strip_generics(path)
    meth = sp.split('::')[-1]
    r0 = args[0]
    while isinstance(r0, Ref):
        r0 = r0.lv.get()
    ci = crate_iter(I, r0)
    if ci is not None:
        # methods the crate's impl defines itself (next, nth, size_hint, next_back...) are run from MIR
        for tr in ('Iterator', 'DoubleEndedIterator', 'ExactSizeIterator'):
            for pre in I.impls.get((tr, r0.name), []):
                if (pre + '::' + meth) in I.crate.index:
                    return I.run(pre + '::' + meth, args)
    it = ci if ci is not None else _it(args[0])
    c = I.ctx
    if meth == 'next':
        return it.next(I)
    if meth == 'next_back':
        return it.next_back(I)
    if meth == 'map':
        return MapIter(it, args[1])
    if meth == 'filter':
        return FilterIter(it, args[1])
    if meth == 'filter_map':
        return FilterMapIter(it, args[1])
    if meth == 'flat_map':
        return FlattenIter(MapIter(it, args[1]))
    if meth == 'flatten':
        return FlattenIter(it)
    if meth == 'enumerate':
        return EnumerateIter(it)
    if meth == 'rev':
        return RevIter(it)
    if meth == 'zip':
        return ZipIter(it, to_iter(I, args[1]))
    if meth == 'chain':
        return ChainIter(it, to_iter(I, args[1]))
    if meth == 'skip':
        return SkipIter(it, args[1])
    if meth == 'take':
        return TakeIter(it, args[1])
    if meth == 'take_while':
        return TakeWhileIter(it, args[1])
    if meth == 'skip_while':
        return SkipWhileIter(it, args[1])
    if meth == 'copied':
        return CopiedIter(it, False)
    if meth == 'cloned':
        return CopiedIter(it, True)
    if meth == 'peekable':
        return PeekableIter(it)
    if meth == 'by_ref':
        return args[0]
    if meth == 'fuse':
        return it
    if meth == 'peek':
        x = it.peek(I)
        return Some(Ref(LV(x.fields, 0))) if x.variant else NONE()
    if meth == 'next_if':
        x = it.peek(I)
        if not x.variant:
            return NONE()
        if c.branch(I.call_value(args[1], [Ref(LV(x.fields, 0))])):
            it.peeked = None
            return x
        return NONE()
    if meth == 'count':
        return len(drain_all(I, it))
    if meth == 'len':
        n = it.size_hint_exact()
        if n is None:
            raise Unsupported('len of inexact iterator')
        return n
    if meth == 'size_hint':
        n = it.size_hint_exact()
        return Tuple(n or 0, Some(n) if n is not None else NONE())
    if meth == 'last':
        xs = drain_all(I, it)
        return Some(xs[-1]) if xs else NONE()
    if meth == 'nth':
        n = args[1]
        x = NONE()
        for _ in range(n + 1):
            x = it.next(I)
            if not x.variant:
                return x
        return x
    if meth == 'collect':
        return collect(I, path, drain_all(I, it))
    if meth == 'for_each':
        for x in drain_all(I, it):
            I.call_value(args[1], [x])
        return UNIT()
    if meth == 'fold':
        acc = args[1]
        while True:
            x = it.next(I)
            if not x.variant:
                return acc
            acc = I.call_value(args[2], [acc, x.fields[0]])
    if meth in ('find', 'rfind'):
        nxt = it.next if meth == 'find' else it.next_back
        while True:
            x = nxt(I)
            if not x.variant:
                return x
            cell = [x.fields[0]]
            if c.branch(I.call_value(args[1], [Ref(LV(cell, 0))])):
                return Some(cell[0])
    if meth == 'find_map':
        while True:
            x = it.next(I)
            if not x.variant:
                return x
            r = I.call_value(args[1], [x.fields[0]])
            if r.variant:
                return r
    if meth == 'rposition':
        xs = drain_all(I, it)
        for k in range(len(xs) - 1, -1, -1):
            if c.branch(I.call_value(args[1], [xs[k]])):
                return Some(k)
        return NONE()
    if meth == 'step_by':
        if args[1] == 0:
            raise Panic('step_by(0)')
        return StepByIter(it, args[1])
    if meth == 'map_while':
        return MapWhileIter(it, args[1])
    if meth == 'scan':
        return ScanIter(it, args[1], args[2])
    if meth == 'try_for_each':
        last = None
        while True:
            x = it.next(I)
            if not x.variant:
                return _try_continue(path, last, UNIT())
            last = I.call_value(args[1], [x.fields[0]])
            if _try_break(last):
                return last
    if meth == 'try_fold':
        acc, last = args[1], None
        while True:
            x = it.next(I)
            if not x.variant:
                return _try_continue(path, last, acc)
            last = I.call_value(args[2], [acc, x.fields[0]])
            if _try_break(last):
                return last
            acc = deref1(last).fields[0]
    if meth == 'reduce':
        x = it.next(I)
        if not x.variant:
            return x
        acc = x.fields[0]
        while True:
            x = it.next(I)
            if not x.variant:
                return Some(acc)
            acc = I.call_value(args[1], [acc, x.fields[0]])
    if meth in ('max_by', 'min_by'):
        xs = drain_all(I, it)
        if not xs:
            return NONE()
        best = xs[0]
        for x in xs[1:]:
            o = I.call_value(args[1], [mkref(best), mkref(x)])      # Ordering of (best, x): 0 Less, 1 Equal, 2 Greater
            if meth == 'max_by':
                if o.variant != 2:      # later element wins ties
                    best = x
            else:
                if o.variant == 2:
                    best = x
        return Some(best)
    if meth == 'ne':
        a = drain_all(I, it)
        b = drain_all(I, to_iter(I, args[1]))
        if len(a) != len(b):
            return True
        return z_not(z_all(val_eq(x, y) for x, y in zip(a, b)))
    if meth == 'position':
        k = 0
        while True:
            x = it.next(I)
            if not x.variant:
                return x
            if c.branch(I.call_value(args[1], [x.fields[0]])):
                return Some(k)
            k += 1
    if meth == 'any':
        while True:
            x = it.next(I)
            if not x.variant:
                return False
            if c.branch(I.call_value(args[1], [x.fields[0]])):
                return True
    if meth == 'all':
        while True:
            x = it.next(I)
            if not x.variant:
                return True
            if not c.branch(I.call_value(args[1], [x.fields[0]])):
                return False
    if meth in ('max', 'min', 'max_by_key', 'min_by_key'):
        xs = drain_all(I, it)
        if not xs:
            return NONE()
        keyf = (lambda v: I.call_value(args[1], [mkref(v)])) if meth.endswith('by_key') else (lambda v: v)
        best = xs[0]
        bk = keyf(best)
        for x in xs[1:]:
            k = keyf(x)
            if meth.startswith('max'):
                if not c.branch(val_lt(I, k, bk)):   # later element wins ties
                    best, bk = x, k
            else:
                if c.branch(val_lt(I, k, bk)):
                    best, bk = x, k
        return Some(best)
    if meth == 'sum':
        acc = 0
        for x in drain_all(I, it):
            acc = acc + deref1(x)
        return acc
    if meth == 'unzip':
        xs = drain_all(I, it)
        return Tuple(PyVec([x.fields[0] for x in xs]), PyVec([x.fields[1] for x in xs]))
    if meth == 'eq':
        a = drain_all(I, it)
        b = drain_all(I, to_iter(I, args[1]))
        if len(a) != len(b):
            return False
        return z_all(val_eq(x, y) for x, y in zip(a, b))
    if meth == 'partition':
        t, f = [], []
        for x in drain_all(I, it):
            cell = [x]
            (t if c.branch(I.call_value(args[1], [Ref(LV(cell, 0))])) else f).append(cell[0])
        return Tuple(PyVec(t), PyVec(f))
    if meth == 'inspect':
        return MapIter(it, lambda I2, x, f=args[1]: (I2.call_value(f, [mkref(x)]), x)[1])
    raise Unsupported('iterator method ' + meth)


def collect(I, path, xs):
    ga = generic_args(path)
    target = ga[-1][0] if ga else ''
    t = strip_generics(target)
    last = t.split('::')[-1]
    if last in ('Vec', 'VecDeque', 'Box'):
        return PyVec(xs)
    if last in ('HashMap', 'BTreeMap'):
        from .containers import map_find
        m = PyMap([])
        for kv in xs:
            k, v = kv.fields
            i = map_find(I, m, k)
            if i is not None:
                m.items[i][1] = v
            else:
                m.items.append([k, v])
        return m
    if last in ('HashSet', 'BTreeSet'):
        from .containers import map_find
        m = PyMap([], 'set')
        for k in xs:
            if map_find(I, m, k) is None:
                m.items.append([k, UNIT()])
        return m
    if last == 'String':
        from . import strings
        return strings.concat_all(I, xs)
    if last == 'Result':
        inner = generic_args('x' + target[target.index('<'):])[0][0] if '<' in target else ''
        out = []
        for x in xs:
            if x.variant == 1:
                return x
            out.append(x.fields[0])
        return Ok(collect(I, 'collect::<' + inner + '>', out))
    if last == 'Option':
        inner = generic_args('x' + target[target.index('<'):])[0][0] if '<' in target else ''
        out = []
        for x in xs:
            if x.variant == 0:
                return x
            out.append(x.fields[0])
        return Some(collect(I, 'collect::<' + inner + '>', out))
    raise Unsupported('collect into ' + target + ' (' + path + ')')


@R.model(r' as FromIterator>::from_iter$')
def m_from_iter(I, path, args):
    q = qself(path)
    return collect(I, 'collect::<' + q[0] + '>', drain_all(I, to_iter(I, args[0])))


@R.model(r' as Extend>::extend$')
def m_extend(I, path, args):
    tgt = deref1(args[0])
    xs = drain_all(I, to_iter(I, args[1]))
    if isinstance(tgt, PyVec):
        tgt.items.extend(xs)
        return UNIT()
    if isinstance(tgt, PyMap):
        from .containers import map_find
        for x in xs:
            if tgt.kind == 'set':
                if map_find(I, tgt, x) is None:
                    tgt.items.append([x, UNIT()])
            else:
                k, v = x.fields
                i = map_find(I, tgt, k)
                if i is not None:
                    tgt.items[i][1] = v
                else:
                    tgt.items.append([k, v])
        return UNIT()
    raise Unsupported('extend of ' + repr(tgt))
