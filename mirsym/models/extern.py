"""Models of external crates at their call boundary: uuid, chrono, std::time, serde/serde_json,
flate2, ring (ideal AEAD/KDF), byteorder, strum, thiserror, anyhow."""
import re

import z3

from . import REGISTRY as R
from .core import (val_eq, val_lt, z_and, z_or, z_not, z_any, z_all, generic_args, qself, Ready, FmtArgs)
from . import strings
from ..parser import Unsupported, strip_generics
from ..values import (Adt, LV, Ref, BoxV, PyVec, PySlice, PyMap, Opaque, TokStr, ZStr, SegStr, NumStr, Bytes, STRLEN, Some, NONE,
                      Ok, Err, Tuple, UNIT, is_sym, copy_val, clone_val, deref, deref1, mkref, Closure, FnItem)
from ..explore import Panic

UUID_MAX = 2 ** 128 - 1


# ----------------------------------------------------------------------------- uuid
# A Uuid is an integer in [0, 2^128): python int or z3 Int term.

@R.model(r'^uuid::v4::new_v4$', r'^Uuid::new_v4$')
def m_uuid_new_v4(I, path, args):
    """Uuid::new_v4: fresh value, distinct from nil and from every uuid seen so far (harness hook 'new_uuid')"""
    f = I.env.get('new_uuid')
    if f is None:
        raise Unsupported('Uuid::new_v4 without a harness hook')
    return f(I)


@R.model(r'^uuid::builder::nil$', r'^Uuid::nil$')
def m_uuid_nil(I, path, args):
    return 0


@R.const_model(r'(^|::)NIL_VERSION_ID$|(^|::)DEFAULT_BASE_VERSION$')
def c_nil(I, c):
    return 0


@R.model(r'^uuid::fmt::as_simple$', r'^Uuid::as_simple$', r'^uuid::fmt::simple$')
def m_uuid_as_simple(I, path, args):
    v = Adt('Simple', 0, [deref1(args[0])])
    return mkref(v) if 'as_simple' in path else v


@R.model(r'^uuid::fmt::as_hyphenated$', r'^uuid::fmt::hyphenated$')
def m_uuid_as_hyph(I, path, args):
    v = Adt('Hyphenated', 0, [deref1(args[0])])
    return mkref(v) if 'as_' in path else v


@R.model(r'^uuid::parser::(parse_str|try_parse|try_parse_ascii)$', r'^<Uuid as (std::str::)?FromStr>::from_str$')
def m_uuid_parse(I, path, args):
    return strings.uuid_parse(I, args[0])


@R.model(r'^Uuid::as_bytes$', r'^uuid::\w*::?as_bytes$', r'^Uuid::into_bytes$')
def m_uuid_as_bytes(I, path, args):
    from .crypto import UuidByte
    u = deref1(args[0])
    v = PyVec([UuidByte(u, i) for i in range(16)])
    return mkref(v) if 'as_bytes' in path else v


@R.model(r'^uuid::builder::from_bytes$', r'^uuid::builder::from_slice$')
def m_uuid_from_bytes(I, path, args):
    b = deref(args[0])
    from .crypto import UuidByte
    if isinstance(b, (PyVec, PySlice)) and len(b.items) == 16 and all(isinstance(x, UuidByte) and x.i == k and x.u is b.items[0].u for k, x in enumerate(b.items)):
        return b.items[0].u if 'from_bytes' in path else Ok(b.items[0].u)
    if isinstance(b, Bytes) and b.tag == 'uuid16':
        return b.payload if 'from_bytes' in path else Ok(b.payload)
    if isinstance(b, (PyVec, PySlice)) and len(b.items) == 16 and all(isinstance(x, int) for x in b.items):
        v = int.from_bytes(bytes(b.items), 'big')
        return v if 'from_bytes' in path else Ok(v)
    raise Unsupported('Uuid::from_bytes of ' + repr(b))


@R.model(r'^Uuid::is_nil$', r'^uuid::\w*::?is_nil$')
def m_uuid_is_nil(I, path, args):
    return deref1(args[0]) == 0


# ----------------------------------------------------------------------------- chrono / time
# DateTime<Utc> = Adt('DateTime', 0, [secs, nanos]); TimeDelta = Adt('TimeDelta', 0, [secs, nanos])
CHRONO_MIN_SECS = -8334601228800       # DateTime::<Utc>::MIN_UTC.timestamp()  (validated by Kani harness K2)
CHRONO_MAX_SECS = 8210266876799        # DateTime::<Utc>::MAX_UTC.timestamp()


def mk_dt(secs, nanos=0):
    return Adt('DateTime', 0, [secs, nanos])


@R.model(r'^chrono::Utc::now$', r'^Utc::now$')
def m_utc_now(I, path, args):
    """Utc::now(): harness clock hook ('now'); contract: a valid DateTime"""
    f = I.env.get('now')
    if f is None:
        raise Unsupported('Utc::now without a harness clock')
    return f(I)


@R.model(r'^DateTime::timestamp$')
def m_dt_timestamp(I, path, args):
    return deref1(args[0]).fields[0]


@R.model(r'^DateTime::from_timestamp$')
def m_dt_from_timestamp(I, path, args):
    secs, nanos = args[0], args[1]
    ok = z_and(secs >= CHRONO_MIN_SECS, secs <= CHRONO_MAX_SECS)
    if isinstance(nanos, int):
        if nanos >= 2_000_000_000:
            return NONE()
    else:
        ok = z_and(ok, nanos < 2_000_000_000)
    if I.ctx.branch(ok):
        return Some(mk_dt(secs, nanos))
    return NONE()


@R.model(r'^<chrono::Utc as chrono::TimeZone>::timestamp_opt$', r'^<Utc as TimeZone>::timestamp_opt$')
def m_timestamp_opt(I, path, args):
    secs, nanos = args[1], args[2]
    ok = z_and(secs >= CHRONO_MIN_SECS, secs <= CHRONO_MAX_SECS)
    if I.ctx.branch(ok):
        return Adt('LocalResult', 0, [mk_dt(secs, nanos)])
    return Adt('LocalResult', 2, [])


@R.model(r'^(chrono::)?(LocalResult|MappedLocalTime)::(single|earliest|latest|unwrap)$')
def m_local_result(I, path, args):
    r = deref1(args[0])
    meth = strip_generics(path).split('::')[-1]
    if meth == 'unwrap':
        if r.variant != 0:
            raise Panic('LocalResult::unwrap on ' + ['Single', 'Ambiguous', 'None'][r.variant])
        return r.fields[0]
    if r.variant == 0:
        return Some(r.fields[0])
    if r.variant == 1:
        return NONE() if meth == 'single' else Some(r.fields[0 if meth == 'earliest' else 1])
    return NONE()


@R.model(r'^TimeDelta::(days|seconds|hours|minutes|weeks|milliseconds|zero)$', r'^Duration::(days|seconds|hours|minutes|weeks)$')
def m_timedelta(I, path, args):
    unit = strip_generics(path).split('::')[-1]
    if unit == 'zero':
        return Adt('TimeDelta', 0, [0, 0])
    mult = {'days': 86400, 'seconds': 1, 'hours': 3600, 'minutes': 60, 'weeks': 604800}.get(unit)
    if mult is None:
        raise Unsupported('TimeDelta::' + unit)
    n = args[0]
    if is_sym(n):
        raise Unsupported('symbolic TimeDelta')
    return Adt('TimeDelta', 0, [n * mult, 0])


@R.model(r'^<DateTime as (std::ops::)?(Sub|Add)>::(sub|add)$')
def m_dt_sub(I, path, args):
    a, b = deref1(args[0]), deref1(args[1])
    sign = -1 if path.endswith('sub') else 1
    if b.name == 'TimeDelta':
        secs = a.fields[0] + sign * b.fields[0]
        # chrono panics when the result is out of range
        ok = z_and(secs >= CHRONO_MIN_SECS, secs <= CHRONO_MAX_SECS)
        if not I.ctx.branch(ok):
            raise Panic('DateTime +/- TimeDelta overflowed')
        return mk_dt(secs, a.fields[1])
    if b.name == 'DateTime' and sign == -1:
        return Adt('TimeDelta', 0, [a.fields[0] - b.fields[0], 0])
    if b.name == 'Months':
        return _shift_months(I, a, sign * b.fields[0], panic=True)
    raise Unsupported('DateTime arithmetic ' + path)


def _shift_months(I, a, months, panic):
    """calendar arithmetic (chrono: same day of month clamped to the month's length, time of day kept).  The instant is
    made concrete first (representative instants spread over the harness range: calendar arithmetic is not encoded
    symbolically); cover note 'calendar arithmetic on representative instants'"""
    import datetime
    secs = a.fields[0]
    if not isinstance(secs, int):
        reps = [86400 * d + 3600 * 13 for d in (59, 365 + 240, 11323, 17956, 19624, 20723, 30000, 45000)]
        I.ctx.cover('calendar arithmetic on representative instants')
        secs = I.ctx.concretize(secs, reps)
    if not isinstance(months, int):
        raise Unsupported('symbolic number of months')
    d = datetime.datetime(1970, 1, 1) + datetime.timedelta(seconds=secs)
    y, m0 = divmod(d.year * 12 + (d.month - 1) + months, 12)
    import calendar
    if not (1 <= y <= 9999):
        if panic:
            raise Panic('DateTime +/- Months overflowed')
        return NONE()
    day = min(d.day, calendar.monthrange(y, m0 + 1)[1])
    r = d.replace(year=y, month=m0 + 1, day=day)
    out = mk_dt(int((r - datetime.datetime(1970, 1, 1)).total_seconds()), a.fields[1])
    return out if panic else Some(out)


@R.model(r'^Months::new$', r'^chrono::Months::new$')
def m_months_new(I, path, args):
    return Adt('Months', 0, [args[0]])


@R.model(r'^DateTime::(checked_sub_months|checked_add_months)$')
def m_dt_checked_months(I, path, args):
    a, b = deref1(args[0]), deref1(args[1])
    return _shift_months(I, a, (-1 if 'sub' in path else 1) * b.fields[0], panic=False)


@R.model(r'^SystemTime::now$', r'^std::time::SystemTime::now$')
def m_systime_now(I, path, args):
    f = I.env.get('system_now')
    if f is None:
        raise Unsupported('SystemTime::now without a harness clock')
    return Adt('SystemTime', 0, [f(I)])


@R.model(r'^SystemTime::duration_since$')
def m_systime_since(I, path, args):
    a, b = deref1(args[0]), deref1(args[1])
    d = a.fields[0] - b.fields[0]
    if I.ctx.branch(d >= 0):
        return Ok(Adt('Duration', 0, [d]))
    return Err(Opaque('SystemTimeError'))


@R.const_model(r'UNIX_EPOCH$')
def c_unix_epoch(I, c):
    return Adt('SystemTime', 0, [0])


@R.model(r'^Duration::as_secs$')
def m_duration_as_secs(I, path, args):
    return deref1(args[0]).fields[0]


@R.model(r'^core::num::(<impl \w+>::)?saturating_sub$', r'^core::num::saturating_sub$')
def m_saturating_sub(I, path, args):
    a, b = args
    d = a - b
    if isinstance(d, int):
        return max(d, 0)
    return d if I.ctx.branch(d >= 0) else 0


@R.model(r'^core::num::(<impl \w+>::)?(saturating_add|checked_add|checked_sub|wrapping_add|wrapping_sub|checked_mul|abs|pow|min|max)$')
def m_num_misc(I, path, args):
    meth = strip_generics(path).split('::')[-1]
    raise Unsupported('integer method ' + meth + ' (add a width-aware model)')


@R.model(r'^NonZero::new$')
def m_nonzero_new(I, path, args):
    v = args[0]
    if isinstance(v, int):
        return Some(v) if v != 0 else NONE()
    return Some(v) if I.ctx.branch(v != 0) else NONE()


@R.model(r'^NonZero::get$')
def m_nonzero_get(I, path, args):
    return deref1(args[0])


@R.model(r'^std::ops::RangeInclusive::new$')
def m_range_incl(I, path, args):
    return Adt('RangeInclusive', 0, [args[0], args[1], False])


@R.model(r'^<&bool as Not>::not$', r'^<bool as Not>::not$')
def m_not(I, path, args):
    return z_not(deref1(args[0]))


@R.model(r' as (TryInto|TryFrom)>::(try_into|try_from)$')
def m_try_into(I, path, args):
    v = deref(args[0])
    q = qself(path)
    dst = ''
    if q and q[1] and '<' in q[1]:
        dst = q[1][q[1].index('<') + 1:-1]
    if path.endswith('try_from'):
        dst = q[0]
    m = re.match(r'&?\[(\w+); (\d+)\]', dst.strip())
    if m:
        n = int(m.group(2))
        if isinstance(v, (PyVec, PySlice)):
            return Ok(PyVec(list(v.items))) if len(v.items) == n else Err(Opaque('TryFromSliceError'))
        if isinstance(v, Bytes):
            ln = bytes_len(I, v)
            if isinstance(ln, int):
                return Ok(v) if ln == n else Err(Opaque('TryFromSliceError'))
            return Ok(v) if I.ctx.branch(ln == n) else Err(Opaque('TryFromSliceError'))
    dl = strip_generics(dst).split('::')[-1]
    from ..interp import INT_BOUNDS
    if dl in INT_BOUNDS and (isinstance(v, int) or is_sym(v)):
        lo, hi = INT_BOUNDS[dl]
        ok = z_and(v >= lo, v <= hi)
        return Ok(v) if I.ctx.branch(ok) else Err(Opaque('TryFromIntError'))
    pre = I.impls.get(('TryFrom', dl))
    if pre:
        return I.run(pre[0] + '::try_from', [args[0]])
    raise Unsupported('TryInto ' + path)


# ----------------------------------------------------------------------------- hashing (only via derive(Hash) on keys: no-op)

@R.model(r' as Hash>::hash$', r' as Hasher>::\w+$')
def m_hash(I, path, args):
    return UNIT()


# ----------------------------------------------------------------------------- Arc / Mutex (single-threaded use)

@R.model(r'^Arc::new$', r'^Rc::new$')
def m_arc_new(I, path, args):
    return BoxV(args[0])


@R.model(r'^<(Arc|Rc) as Clone>::clone$', first=True)
def m_arc_clone(I, path, args):
    return deref1(args[0])


# ----------------------------------------------------------------------------- thiserror / anyhow glue

@R.model(r'thiserror::__private\d*::AsDisplay>::as_display$')
def m_as_display(I, path, args):
    return args[0]


@R.model(r' as anyhow::Context>::(context|with_context)$')
def m_anyhow_context(I, path, args):
    r = args[0]
    if r.name == 'Option':
        return Ok(r.fields[0]) if r.variant == 1 else Err(Adt('anyhow::Error', 0, [Opaque('context')]))
    if r.variant == 0:
        return r
    return Err(Adt('anyhow::Error', 0, [r.fields[0]]))


# ----------------------------------------------------------------------------- serde: model serializer -> abstract JSON document
# document forms: ('obj', [(key, doc)...]) ('arr', [doc...]) ('str', strvalue) ('num', int) ('null',) ('bool', b)
#                 ('uuid', term)  = JSON string holding the hyphenated uuid
#                 ('rfc3339', DateTime Adt) = JSON string holding the RFC 3339 rendering

class SerOk:
    """value returned through Serializer::Ok"""

    def __init__(self, doc):
        self.doc = doc


class ModelSerializer:
    rust_type = 'ModelSerializer'

    def __init__(self):
        pass

    def rust_call(self, trait, meth):
        fn = getattr(self, 'ser_' + meth, None)
        if fn is None:
            raise Unsupported(f'model serializer: {trait}::{meth}')
        return lambda I, path, args: fn(I, path, args)

    # Serializer
    def ser_serialize_struct_variant(self, I, path, args):
        _, name, idx, variant, ln = args
        return Ok(Compound('variant', deref(variant)))

    def ser_serialize_struct(self, I, path, args):
        return Ok(Compound('struct', None))

    def ser_serialize_map(self, I, path, args):
        return Ok(Compound('map', None))

    def ser_serialize_seq(self, I, path, args):
        return Ok(Compound('seq', None))

    def ser_serialize_unit_variant(self, I, path, args):
        return Ok(SerOk(('str', deref(args[3]))))

    def ser_serialize_newtype_variant(self, I, path, args):
        ga = generic_args(path)
        return Ok(SerOk(('obj', [(deref(args[3]), to_doc(I, args[4], ga[-1][0] if ga else ''))])))

    def ser_serialize_newtype_struct(self, I, path, args):
        ga = generic_args(path)
        return Ok(SerOk(to_doc(I, args[2], ga[-1][0] if ga else '')))

    def ser_serialize_str(self, I, path, args):
        return Ok(SerOk(('str', deref(args[1]))))

    def ser_serialize_none(self, I, path, args):
        return Ok(SerOk(('null',)))

    def ser_serialize_unit(self, I, path, args):
        return Ok(SerOk(('null',)))

    def ser_serialize_some(self, I, path, args):
        ga = generic_args(path)
        return Ok(SerOk(to_doc(I, args[1], ga[-1][0] if ga else '')))

    def ser_serialize_bool(self, I, path, args):
        return Ok(SerOk(('bool', args[1])))

    def ser_collect_seq(self, I, path, args):
        from .iterators import to_iter, drain_all
        xs = drain_all(I, to_iter(I, args[1]))
        return Ok(SerOk(('arr', [to_doc(I, x, '') for x in xs])))

    def ser_collect_map(self, I, path, args):
        from .iterators import to_iter, drain_all
        xs = drain_all(I, to_iter(I, args[1]))
        return Ok(SerOk(('obj', [(key_doc(I, x.fields[0]), to_doc(I, x.fields[1], '')) for x in xs])))


for _w in ('i8', 'i16', 'i32', 'i64', 'u8', 'u16', 'u32', 'u64', 'i128', 'u128'):
    setattr(ModelSerializer, 'ser_serialize_' + _w, lambda self, I, path, args: Ok(SerOk(('num', args[1]))))


class Compound:
    """SerializeStruct / SerializeStructVariant / SerializeMap / SerializeSeq state"""
    rust_type = 'Compound'

    def __init__(self, kind, variant):
        self.kind, self.variant, self.entries, self.pending_key = kind, variant, [], None

    def rust_call(self, trait, meth):
        fn = getattr(self, 'c_' + meth, None)
        if fn is None:
            raise Unsupported(f'model serializer compound: {trait}::{meth}')
        return lambda I, path, args: fn(I, path, args)

    def c_serialize_field(self, I, path, args):
        ga = generic_args(path)
        ty = ga[-1][0] if ga else ''
        self.entries.append((deref(args[1]), to_doc(I, args[2], ty)))
        return Ok(UNIT())

    def c_skip_field(self, I, path, args):
        return Ok(UNIT())

    def c_serialize_entry(self, I, path, args):
        ga = generic_args(path)
        kt = ga[-1][0] if ga else ''
        vt = ga[-1][1] if ga and len(ga[-1]) > 1 else ''
        self.entries.append((key_doc(I, args[1], kt), to_doc(I, args[2], vt)))
        return Ok(UNIT())

    def c_serialize_key(self, I, path, args):
        self.pending_key = key_doc(I, args[1])
        return Ok(UNIT())

    def c_serialize_value(self, I, path, args):
        ga = generic_args(path)
        self.entries.append((self.pending_key, to_doc(I, args[1], ga[-1][0] if ga else '')))
        return Ok(UNIT())

    def c_serialize_element(self, I, path, args):
        ga = generic_args(path)
        self.entries.append(to_doc(I, args[1], ga[-1][0] if ga else ''))
        return Ok(UNIT())

    def c_end(self, I, path, args):
        if self.kind == 'seq':
            return Ok(SerOk(('arr', self.entries)))
        body = ('obj', self.entries)
        if self.kind == 'variant':
            return Ok(SerOk(('obj', [(self.variant, body)])))
        return Ok(SerOk(body))


def key_doc(I, v, ty=''):
    """JSON object key (serde_json renders Uuid / String keys as strings)"""
    v = deref(v)
    t = strip_generics(ty).lstrip('&').split('::')[-1]
    if isinstance(v, (str, TokStr, ZStr, SegStr, NumStr)):
        return v
    if t == 'Uuid' or isinstance(v, int) or is_sym(v):
        return ('uuidkey', v)
    raise Unsupported('map key ' + repr(v))


def to_doc(I, v, ty=''):
    """serialize value v (declared type ty) with the model serializer"""
    v = deref(v)
    t = strip_generics(ty).lstrip('&').strip()
    last = t.split('::')[-1]
    if isinstance(v, (str, TokStr, ZStr, SegStr, NumStr)):
        return ('str', v)
    if isinstance(v, bool):
        return ('bool', v)
    if isinstance(v, Adt):
        if v.name == 'Option':
            if v.variant == 0:
                return ('null',)
            ga = generic_args('x<' + ty[ty.index('<') + 1:]) if '<' in ty else []
            return to_doc(I, v.fields[0], ga[0][0] if ga and ga[0] else '')
        if v.name == 'DateTime':
            return ('rfc3339', v)
        if v.name == 'tuple':
            return ('arr', [to_doc(I, x, '') for x in v.fields])
        pre = I.impl_for('Serialize', v.name, ty)
        if pre:
            r = I.run(pre + '::serialize', [mkref(v), ModelSerializer()])
            if r.variant != 0:
                raise Unsupported('model serializer returned Err')
            return r.fields[0].doc
        raise Unsupported('no Serialize impl for ' + v.name)
    if isinstance(v, (PyVec, PySlice)):
        ga = generic_args('x<' + ty[ty.index('<') + 1:]) if '<' in ty else []
        et = ga[0][0] if ga and ga[0] else ''
        return ('arr', [to_doc(I, x, et) for x in v.items])
    if isinstance(v, PyMap):
        ga = generic_args('x<' + ty[ty.index('<') + 1:]) if '<' in ty else []
        kt = ga[0][0] if ga and ga[0] else ''
        vt = ga[0][1] if ga and len(ga[0]) > 1 else ''
        return ('obj', [(key_doc(I, k, kt), to_doc(I, x, vt)) for k, x in v.items])
    if last == 'Uuid' or (not ty and (isinstance(v, int) or is_sym(v))):
        return ('uuid', v)
    if isinstance(v, int) or is_sym(v):
        if last in ('Uuid',):
            return ('uuid', v)
        return ('num', v)
    raise Unsupported(f'serialize {v!r} as {ty}')


class JsonStr:
    """the String produced by serde_json::to_string: the abstract document plus a symbolic byte length"""

    def __init__(self, doc, length):
        self.doc, self.length, self.src = doc, length, None

    def len_model(self, I):
        return self.length

    def clone_model(self, I):
        return self

    def eq_model(self, other):
        return doc_eq(self.doc, other.doc) if isinstance(other, JsonStr) else False

    def __repr__(self):
        return f'JsonStr({self.doc!r})'


class JsonText:
    """JSON text assembled by hand: literal pieces interleaved with documents produced by serde_json::to_string.
    It is parsed (documented JSON grammar, embedded documents as atomic values) when it is decoded or compared."""

    def __init__(self, pieces):
        out = []
        for p in pieces:
            if isinstance(p, JsonText):
                out.extend(p.pieces)
            elif isinstance(p, str) and out and isinstance(out[-1], str):
                out[-1] += p
            elif p != '':
                out.append(p)
        self.pieces = out

    def len_model(self, I):
        n = 0
        for p in self.pieces:
            n = n + (len(p.encode()) if isinstance(p, str) else p.length)
        return n

    def clone_model(self, I):
        return self

    def parse(self):
        """-> JsonStr, or raises Unsupported when the text is not one well-formed JSON value"""
        toks = []
        for p in self.pieces:
            if not isinstance(p, str):
                toks.append(('doc', p))
                continue
            i = 0
            while i < len(p):
                ch = p[i]
                if ch in ' \t\r\n':
                    i += 1
                elif ch in '{}[],:':
                    toks.append((ch, None))
                    i += 1
                elif ch == '"':
                    j = i + 1
                    while j < len(p) and p[j] != '"':
                        if p[j] == '\\':
                            raise Unsupported('escape in hand-written JSON text')
                        j += 1
                    if j >= len(p):
                        raise Unsupported('unterminated string in hand-written JSON text')
                    toks.append(('s', p[i + 1:j]))
                    i = j + 1
                elif p.startswith('null', i):
                    toks.append(('null', None))
                    i += 4
                elif p.startswith('true', i) or p.startswith('false', i):
                    t = p.startswith('true', i)
                    toks.append(('bool', t))
                    i += 4 if t else 5
                else:
                    raise Unsupported('token in hand-written JSON text: ' + p[i:i + 12])
        pos = [0]

        def peek():
            return toks[pos[0]] if pos[0] < len(toks) else (None, None)

        def take(kind=None):
            t = peek()
            if t[0] is None or (kind is not None and t[0] != kind):
                raise Unsupported('malformed hand-written JSON text')
            pos[0] += 1
            return t

        def value():
            k, v = take()
            if k == 'doc':
                return v.doc, v.src
            if k == 's':
                return ('str', v), v
            if k == 'null':
                return ('null',), None
            if k == 'bool':
                return ('bool', v), v
            if k == '[':
                docs, srcs = [], []
                if peek()[0] == ']':
                    take()
                    return ('arr', docs), srcs
                while True:
                    d, s = value()
                    docs.append(d)
                    srcs.append(s)
                    if peek()[0] == ',':
                        take()
                        continue
                    take(']')
                    return ('arr', docs), srcs
            if k == '{':
                ents, srcs = [], {}
                if peek()[0] == '}':
                    take()
                    return ('obj', ents), srcs
                while True:
                    key = take('s')[1]
                    take(':')
                    d, s = value()
                    ents.append((key, d))
                    srcs[key] = s
                    if peek()[0] == ',':
                        take()
                        continue
                    take('}')
                    return ('obj', ents), srcs
            raise Unsupported('malformed hand-written JSON text')
        doc, src = value()
        if pos[0] != len(toks):
            raise Unsupported('trailing text after the JSON value')
        js = JsonStr(doc, self.len_model(None))
        # source value for the injective-codec shortcut: a version document {"operations":[op,...]}
        if isinstance(src, dict) and list(src.keys()) == ['operations'] and isinstance(src['operations'], list) \
                and all(isinstance(x, Adt) for x in src['operations']):
            js.src = Adt('Version', 0, [PyVec([clone_val(x) for x in src['operations']])])
        return js

    def __repr__(self):
        return f'JsonText({self.pieces!r})'


def as_json_str(s):
    return s.parse() if isinstance(s, JsonText) else s


def doc_eq(a, b):
    if a[0] != b[0]:
        return False
    k = a[0]
    if k == 'null':
        return True
    if k in ('str', 'num', 'bool', 'uuid', 'uuidkey', 'rfc3339'):
        return val_eq(a[1], b[1])
    if k == 'arr':
        if len(a[1]) != len(b[1]):
            return False
        return z_all(doc_eq(x, y) for x, y in zip(a[1], b[1]))
    if k == 'obj':
        if len(a[1]) != len(b[1]):
            return False
        return z_all(z_and(val_eq(_keyv(x[0]), _keyv(y[0])), doc_eq(x[1], y[1])) for x, y in zip(a[1], b[1]))
    raise Unsupported('doc_eq ' + k)


def _keyv(k):
    return k[1] if isinstance(k, tuple) else k


def doc_size(I, doc):
    """byte length of serde_json's compact rendering, as an integer term.
    Strings are assumed to need no escaping (ASCII alphanumerics) — stated assumption."""
    k = doc[0]
    if k == 'null':
        return 4
    if k == 'bool':
        b = doc[1]
        return (4 if b else 5) if isinstance(b, bool) else z3.If(b, 4, 5)
    if k == 'str':
        return 2 + strings.str_len(I, doc[1])
    if k in ('uuid', 'uuidkey'):
        return 38
    if k == 'rfc3339':
        # chrono renders '2024-01-01T00:00:00Z' (20 chars) up to 9 fractional digits (+1..10): harness hook may
        # pin it; default: whole seconds, 4-digit year
        f = I.env.get('rfc3339_len')
        return 2 + (f(I, doc[1]) if f else 20)
    if k == 'num':
        v = doc[1]
        if isinstance(v, int):
            return len(str(v))
        raise Unsupported('size of symbolic number')
    if k == 'arr':
        n = 2 + max(0, len(doc[1]) - 1)
        for x in doc[1]:
            n = n + doc_size(I, x)
        return n
    if k == 'obj':
        n = 2 + max(0, len(doc[1]) - 1)
        for key, x in doc[1]:
            ks = (2 + strings.str_len(I, key)) if not isinstance(key, tuple) else 38
            n = n + ks + 1 + doc_size(I, x)
        return n
    raise Unsupported('doc_size ' + k)


@R.model(r'^serde_json::to_string$', r'^serde_json::to_vec$', r'^serde_json::ser::to_string$')
def m_json_to_string(I, path, args):
    """serde_json::to_string: the crate's own Serialize impl is run against a model serializer; the result is
    the abstract JSON document with its byte length as an integer term"""
    ga = generic_args(path)
    ty = ga[-1][0] if ga else ''
    doc = to_doc(I, args[0], ty)
    hook = I.env.get('json_size')
    size = hook(I, doc, deref(args[0])) if hook else doc_size(I, doc)
    js = JsonStr(doc, size)
    js.src = clone_val(deref(args[0]))
    log = I.env.get('json_log')
    if log is not None:
        log.append(js)
    return Ok(js if 'to_string' in path else Bytes('json', js))


@R.model(r'^serde_json::from_str$', r'^serde_json::from_slice$', r'^serde_json::de::from_str$')
def m_json_from_str(I, path, args):
    """serde_json::from_str: decoder for the *documented* wire format (independent of the crate's Deserialize
    derive, which is trusted to implement it)"""
    s = deref(args[0])
    if isinstance(s, Bytes) and s.tag in ('json', 'utf8'):
        s = s.payload
    s = as_json_str(s)
    if not isinstance(s, JsonStr):
        raise Unsupported('serde_json::from_str of ' + repr(s))
    ga = generic_args(path)
    ty = ga[-1][-1] if ga else ''
    dec = I.env.get('json_decode')
    if dec is None:
        raise Unsupported('serde_json::from_str without a decoder hook')
    return dec(I, s, ty)


# ----------------------------------------------------------------------------- flate2 / io: lossless codec assumption

class ZWriter:
    """ZlibEncoder<Vec<u8>> / BufWriter<..>: collects what is written (a JSON document)"""
    rust_type = 'ZWriter'

    def __init__(self):
        self.docs = []


@R.model(r'^<Compression as Default>::default$', r'^flate2::Compression::\w+$', first=True)
def m_compression(I, path, args):
    return Opaque('Compression')


@R.model(r'^flate2::write::ZlibEncoder::new$', r'^BufWriter::new$', r'^std::io::BufWriter::new$')
def m_zenc_new(I, path, args):
    if 'BufWriter' in path:
        return args[0]
    return ZWriter()


@R.model(r'^BufWriter::into_inner$', r'^std::io::BufWriter::into_inner$')
def m_bufwriter_into_inner(I, path, args):
    return Ok(args[0])


@R.model(r'^flate2::write::ZlibEncoder::finish$')
def m_zenc_finish(I, path, args):
    w = args[0]
    if len(w.docs) != 1:
        raise Unsupported('ZlibEncoder with != 1 document')
    return Ok(Bytes('zlib', w.docs[0]))


@R.model(r'^serde_json::to_writer$', r'^to_writer$')
def m_json_to_writer(I, path, args):
    ga = generic_args(path)
    ty = ga[-1][-1] if ga else ''
    w = deref(args[0])
    if not isinstance(w, ZWriter):
        raise Unsupported('to_writer into ' + repr(w))
    doc = to_doc(I, args[1], ty)
    js = JsonStr(doc, 0)
    js.src = clone_val(deref(args[1]))
    w.docs.append(js)
    return Ok(UNIT())


@R.model(r'^flate2::read::ZlibDecoder::new$')
def m_zdec_new(I, path, args):
    return Adt('ZlibDecoder', 0, [deref(args[0])])


@R.model(r'^serde_json::from_reader$', r'^from_reader$')
def m_json_from_reader(I, path, args):
    r = args[0]
    b = r.fields[0]
    if isinstance(b, (PyVec, PySlice)) and len(b.items) == 1 and isinstance(b.items[0], Bytes):
        b = b.items[0]
    if isinstance(b, Bytes) and b.tag == 'zlib':
        ga = generic_args(path)
        ty = ga[-1][-1] if ga else ''
        dec = I.env.get('json_decode')
        if dec is None:
            raise Unsupported('serde_json::from_reader without a decoder hook')
        return dec(I, b.payload, ty)
    hook = I.env.get('bad_snapshot')
    if hook:
        return hook(I, b)
    return Err(Opaque('serde_json::Error(invalid zlib/json)'))


def bytes_len(I, b):
    b = deref(b)
    if isinstance(b, (PyVec, PySlice)):
        return len(b.items)
    if isinstance(b, Bytes):
        if b.tag == 'uuid16':
            return 16
        if b.tag == 'utf8':
            return strings.str_len(I, b.payload)
        if b.tag == 'json':
            return b.payload.length
        f = I.env.get('bytes_len')
        if f:
            return f(I, b)
    raise Unsupported('length of ' + repr(b))


# ----------------------------------------------------------------------------- strum (derive macros on Status / SyntheticTag / Prop)

@R.model(r'^<\w+ as (std::str::)?FromStr>::from_str$', r'^<\w+ as IntoEnumIterator>::iter$', r'^<\w+ as TryFrom>::try_from$')
def m_strum(I, path, args):
    q = qself(strip_generics(path))
    ty, trait = q[0].split('::')[-1], q[1].split('::')[-1]
    meth = path.split('::')[-1]
    pre = I.impls.get((trait, ty))
    if pre and (pre[0] + '::' + meth) in I.crate.index:
        return I.run(pre[0] + '::' + meth, args)
    raise Unsupported('strum/FromStr ' + path)
