"""Models of core language-level library items: Try/?, futures, Pin/Box, Option/Result combinators,
structural Clone/PartialEq/PartialOrd, fmt/log (no-ops), mem::*, panics."""
import re

import z3

from . import REGISTRY as R
from ..parser import Unsupported, split_top, strip_generics
from ..values import (Adt, Coroutine, Closure, LV, Ref, BoxV, PyVec, PySlice, PyMap, FnItem, Opaque, TokStr, ZStr, NumStr,
                      SegStr, Bytes, Some, NONE, Ok, Err, Tuple, UNIT, is_sym, copy_val, clone_val, deref, deref1,
                      mkref)
from ..explore import Panic, PathAbort


# ----------------------------------------------------------------------------- boolean helpers

def z_and(a, b):
    if a is True:
        return b
    if b is True:
        return a
    if a is False or b is False:
        return False
    return z3.And(a, b)


def z_or(a, b):
    if a is False:
        return b
    if b is False:
        return a
    if a is True or b is True:
        return True
    return z3.Or(a, b)


def z_not(a):
    if isinstance(a, bool):
        return not a
    return z3.Not(a)


def z_all(xs):
    r = True
    for x in xs:
        r = z_and(r, x)
        if r is False:
            return False
    return r


def z_any(xs):
    r = False
    for x in xs:
        r = z_or(r, x)
        if r is True:
            return True
    return r


def z_ite(c, a, b):
    if c is True:
        return a
    if c is False:
        return b
    if isinstance(a, bool):
        a = z3.BoolVal(a)
    if isinstance(b, bool):
        b = z3.BoolVal(b)
    return z3.If(c, a, b)


# ----------------------------------------------------------------------------- structural equality / order

def str_eq(a, b):
    from . import strings
    return strings.str_eq(a, b)


def is_strlike(v):
    return isinstance(v, (str, TokStr, ZStr, SegStr, NumStr))


def val_eq(a, b):
    """structural equality: python bool or z3 Bool"""
    a, b = deref(a), deref(b)
    if a is b and not isinstance(a, float):
        return True
    if is_strlike(a) or is_strlike(b):
        return str_eq(a, b)
    if isinstance(a, Adt) and isinstance(b, Adt):
        if a.variant != b.variant or len(a.fields) != len(b.fields):
            return False
        return z_all(val_eq(x, y) for x, y in zip(a.fields, b.fields))
    if isinstance(a, (PyVec, PySlice)) and isinstance(b, (PyVec, PySlice)):
        ai, bi = a.items, b.items
        if len(ai) != len(bi):
            return False
        return z_all(val_eq(x, y) for x, y in zip(ai, bi) if x is not y)
    if isinstance(a, PyMap) and isinstance(b, PyMap):
        if len(a.items) != len(b.items):
            return False
        res = True
        for k, v in a.items:
            alts = [z_and(val_eq(k, k2), val_eq(v, v2)) for k2, v2 in b.items]
            res = z_and(res, z_any(alts))
        return res
    if isinstance(a, Bytes) and isinstance(b, Bytes):
        if a.tag != b.tag:
            return False
        return val_eq(a.payload, b.payload)
    if isinstance(a, Bytes) or isinstance(b, Bytes):
        # Bytes vs concrete vec of ints: only equal if both concrete forms; treat as different
        return False
    if isinstance(a, tuple) and isinstance(b, tuple):
        if len(a) != len(b):
            return False
        return z_all(val_eq(x, y) for x, y in zip(a, b))
    if a is None and b is None:
        return True
    if isinstance(a, (Opaque, FnItem)) or isinstance(b, (Opaque, FnItem)):
        raise Unsupported(f'equality on opaque values {a!r} {b!r}')
    if isinstance(a, bool) and isinstance(b, bool):
        return a == b
    if isinstance(a, (Adt, PyVec, PyMap, PySlice)) or isinstance(b, (Adt, PyVec, PyMap, PySlice)):
        raise Unsupported(f'equality of mismatched values {a!r} vs {b!r}')
    if hasattr(a, 'eq_model'):
        return a.eq_model(b)
    if hasattr(b, 'eq_model'):
        return b.eq_model(a)
    r = (a == b)
    if isinstance(r, bool):
        return r
    return r


def val_lt(I, a, b):
    """strict structural order a < b (ints, tuples, Option, DateTime, strings)"""
    a, b = deref(a), deref(b)
    if isinstance(a, Adt) and isinstance(b, Adt):
        if a.name in ('Option',) or (a.variant != b.variant):
            if a.variant != b.variant:
                return a.variant < b.variant
        # lexicographic over fields
        res = False
        eq_prefix = True
        for x, y in zip(a.fields, b.fields):
            res = z_or(res, z_and(eq_prefix, val_lt(I, x, y)))
            eq_prefix = z_and(eq_prefix, val_eq(x, y))
        return res
    if isinstance(a, (PyVec, PySlice)) and isinstance(b, (PyVec, PySlice)):
        res = False
        eq_prefix = True
        for x, y in zip(a.items, b.items):
            res = z_or(res, z_and(eq_prefix, val_lt(I, x, y)))
            eq_prefix = z_and(eq_prefix, val_eq(x, y))
        if len(a.items) < len(b.items):
            res = z_or(res, eq_prefix)
        return res
    if is_strlike(a) or is_strlike(b):
        from . import strings
        return strings.str_lt(a, b)
    if isinstance(a, bool) and isinstance(b, bool):
        return (not a) and b
    return a < b


def val_cmp(I, a, b):
    lt = val_lt(I, a, b)
    if I.ctx.branch(lt):
        return Adt('Ordering', 0, [])
    if I.ctx.branch(val_eq(a, b)):
        return Adt('Ordering', 1, [])
    return Adt('Ordering', 2, [])


import functools


@functools.lru_cache(maxsize=None)
def generic_args(path):
    """top-level generic argument groups of the *first* '<...>' that directly follows an identifier
    or '::' in path (i.e. turbofish), as list of strings"""
    out = []
    i, n = 0, len(path)
    while i < n:
        if path[i] == '<' and i > 0 and (path[i - 1].isalnum() or path[i - 1] in '_:'):
            d, j = 0, i
            while j < n:
                if path[j] == '<':
                    d += 1
                elif path[j] == '>' and path[j - 1] not in '-=':
                    d -= 1
                    if d == 0:
                        break
                j += 1
            out.append(split_top(path[i + 1:j]))
            i = j
        i += 1
    return out


@functools.lru_cache(maxsize=None)
def qself(path):
    """for '<T as Trait<..>>::m' return (T, Trait<..>)"""
    if not path.startswith('<'):
        return None
    d = 0
    for k, c in enumerate(path):
        if c == '<':
            d += 1
        elif c == '>' and path[k - 1] not in '-=':
            d -= 1
            if d == 0:
                inner = path[1:k]
                # split at top-level ' as '
                dd = 0
                for j in range(len(inner)):
                    cj = inner[j]
                    if cj in '<([{':
                        dd += 1
                    elif cj in ')]}' or (cj == '>' and inner[j - 1] not in '-='):
                        dd -= 1
                    elif dd == 0 and inner.startswith(' as ', j):
                        return inner[:j].strip(), inner[j + 4:].strip()
                return inner, None
    return None


# ----------------------------------------------------------------------------- PartialEq / PartialOrd / Clone / Default

def _manual_impl(I, trait, v):
    """crate-defined non-derived impl of `trait` for the runtime type of v, if any"""
    if isinstance(v, Adt):
        key = (trait, v.name)
        if key in I.impls and (key not in I.derived or trait not in STD_DERIVES):
            return I.impls[key][0]
    return None


STD_DERIVES = {'Clone', 'Copy', 'PartialEq', 'Eq', 'PartialOrd', 'Ord', 'Hash', 'Debug', 'Default'}


@R.model(r' as PartialEq>::eq$', r' as PartialEq>::ne$')
def m_eq(I, path, args):
    """PartialEq: structural equality (derive semantics); hand-written crate impls are interpreted"""
    a, b = args
    pre = _manual_impl(I, 'PartialEq', deref(a))
    if pre and (pre + '::eq') in I.crate.index:
        r = I.run(pre + '::eq', [a, b])
    else:
        r = val_eq(a, b)
    if path.endswith('::ne'):
        return z_not(r)
    return r


@R.model(r' as PartialOrd>::(lt|le|gt|ge)$')
def m_ord(I, path, args):
    a, b = args
    op = path[-2:]
    if op == 'lt':
        return val_lt(I, a, b)
    if op == 'gt':
        return val_lt(I, b, a)
    if op == 'le':
        return z_not(val_lt(I, b, a))
    return z_not(val_lt(I, a, b))


@R.model(r' as Ord>::cmp$', r' as PartialOrd>::partial_cmp$')
def m_cmp(I, path, args):
    a, b = args
    pre = _manual_impl(I, 'Ord' if path.endswith('::cmp') else 'PartialOrd', deref(a))
    meth = 'cmp' if path.endswith('::cmp') else 'partial_cmp'
    if pre and (pre + '::' + meth) in I.crate.index:
        return I.run(pre + '::' + meth, [a, b])
    r = val_cmp(I, a, b)
    if path.endswith('partial_cmp'):
        return Some(r)
    return r


@R.model(r' as Ord>::(max|min)$')
def m_maxmin(I, path, args):
    a, b = args
    lt = val_lt(I, a, b)
    if path.endswith('max'):
        return b if I.ctx.branch(lt) else a
    return a if I.ctx.branch(lt) else b


@R.model(r'^std::cmp::Ordering::(then|then_with|reverse|is_eq|is_ne|is_lt|is_gt|is_le|is_ge)$')
def m_ordering(I, path, args):
    meth = strip_generics(path).split('::')[-1]
    o = deref(args[0])
    if meth == 'then':
        return o if o.variant != 1 else args[1]
    if meth == 'then_with':
        return o if o.variant != 1 else I.call_value(args[1], [])
    if meth == 'reverse':
        return Adt('Ordering', 2 - o.variant, [])
    return {'is_eq': o.variant == 1, 'is_ne': o.variant != 1, 'is_lt': o.variant == 0, 'is_gt': o.variant == 2,
            'is_le': o.variant != 2, 'is_ge': o.variant != 0}[meth]


@R.model(r' as Clone>::clone$')
def m_clone(I, path, args):
    """Clone: deep copy (derive semantics); hand-written crate impls are interpreted"""
    v = args[0]
    t = deref1(v)
    pre = _manual_impl(I, 'Clone', t)
    if pre and (pre + '::clone') in I.crate.index:
        return I.run(pre + '::clone', [v])
    if hasattr(t, 'clone_model'):
        return t.clone_model(I)
    return clone_val(t)


@R.model(r' as Default>::default$', r'^std::default::Default::default$')
def m_default(I, path, args):
    q = qself(path)
    ty = strip_generics(q[0]) if q else ''
    last = ty.split('::')[-1]
    if last in ('Vec',):
        return PyVec([])
    if last in ('HashMap', 'BTreeMap'):
        return PyMap([])
    if last in ('HashSet', 'BTreeSet'):
        return PyMap([], 'set')
    if last in ('String',) or ty.lstrip('&').strip() in ('str', "'static str", 'String') or re.fullmatch(r"&('\w+ )?(mut )?str", ty):
        return ''
    if re.fullmatch(r"&('\w+ )?(mut )?\[.*\]", ty):
        return PyVec([])
    if last in ('Option',):
        return NONE()
    if last in ('bool',):
        return False
    if last in ('usize', 'u64', 'u32', 'u16', 'u8', 'u128', 'i64', 'i32', 'i16', 'i8', 'i128', 'isize'):
        return 0
    if last in ('char',):
        return 0
    if ty == '()':
        return UNIT()
    pre = I.impls.get(('Default', last))
    if pre:
        return I.run(pre[0] + '::default', [])
    raise Unsupported('Default for ' + path)


# ----------------------------------------------------------------------------- Try / ?

@R.model(r' as Try>::branch$')
def m_branch(I, path, args):
    v = args[0]
    if v.name == 'Result':
        return Adt('ControlFlow', 0, [v.fields[0]]) if v.variant == 0 else Adt('ControlFlow', 1, [Err(v.fields[0])])
    if v.name == 'Option':
        return Adt('ControlFlow', 0, [v.fields[0]]) if v.variant == 1 else Adt('ControlFlow', 1, [NONE()])
    if v.name == 'Poll':
        raise Unsupported('Try on Poll')
    raise Unsupported('Try::branch on ' + repr(v))


def _norm_ty(t):
    t = t.strip()
    t = re.sub(r'\bstd::result::Result\b', 'Result', t)
    return t.replace(' ', '')


def convert_error(I, e, src_ty, dst_ty):
    """From<E1> for E2 at a `?`: identity when the types agree, crate From impls otherwise"""
    s, d = _norm_ty(src_ty), _norm_ty(dst_ty)
    if s == d or s.split('::')[-1] == d.split('::')[-1]:
        return e
    dl = strip_generics(dst_ty).split('::')[-1]
    if dl == 'Error' and 'anyhow' in dst_ty:
        return Adt('anyhow::Error', 0, [e])
    if dl == 'Error':
        # crate::errors::Error: From<anyhow::Error>/io/serde_json/... => Error::Other / Database
        return I.mk_enum('Error', 'Other', [Adt('anyhow::Error', 0, [e])])
    raise Unsupported(f'error conversion {src_ty} -> {dst_ty}')


@R.model(r' as FromResidual>::from_residual$')
def m_from_residual(I, path, args):
    v = args[0]
    if isinstance(v, Adt) and v.name == 'Result' and v.variant == 1:
        q = qself(path)
        if q and q[1]:
            dst = split_top(q[0][q[0].index('<') + 1:-1]) if '<' in q[0] else None
            ga = q[1][q[1].index('<') + 1:-1] if '<' in q[1] else ''
            src = split_top(ga[ga.index('<') + 1:-1]) if '<' in ga else None
            if dst and src and len(dst) == 2 and len(src) == 2:
                return Err(convert_error(I, v.fields[0], src[1], dst[1]))
        return v
    return v


# ----------------------------------------------------------------------------- futures, Pin, Box

class Ready:
    """a future that completes immediately with value v"""

    def __init__(self, v):
        self.v = v


class PendingOnce:
    """a future that returns Pending until the scheduler marks it ready; `thunk(I)` computes the value
    at the moment it is served (so the effect happens at service time)"""

    def __init__(self, thunk, label=''):
        self.thunk, self.label, self.served, self.value = thunk, label, False, None


def poll_value(I, fut, cx):
    v = fut
    pinned_lv = None
    while True:
        if isinstance(v, Ref):
            pinned_lv = v.lv
            v = v.lv.get()
        elif isinstance(v, BoxV):
            pinned_lv = LV(v.cell, 0)
            v = v.cell[0]
        elif isinstance(v, Adt) and v.name == 'Pin':
            v = v.fields[0]
        else:
            break
    if isinstance(v, Ready):
        return Adt('Poll', 0, [v.v])
    if isinstance(v, PendingOnce):
        sched = I.env.get('scheduler')
        if sched is None:
            if not v.served:
                v.value, v.served = v.thunk(I), True
            return Adt('Poll', 0, [v.value])
        return sched.poll_leaf(I, v)
    if isinstance(v, Coroutine):
        return I.run(v.body, [Adt('Pin', 0, [Ref(pinned_lv or LV([v], 0))]), cx])
    if hasattr(v, 'poll_model'):
        return v.poll_model(I, cx)
    raise Unsupported('poll of ' + repr(v))


@R.model(r' as (std::future::)?Future>::poll$')
def m_poll(I, path, args):
    return poll_value(I, args[0], args[1])


@R.model(r' as IntoFuture>::into_future$')
def m_into_future(I, path, args):
    return args[0]


@R.model(r'^Pin::new_unchecked$', r'^Pin::new$')
def m_pin_new(I, path, args):
    return Adt('Pin', 0, [args[0]])


@R.model(r'^Pin::(get_mut|get_unchecked_mut|into_inner|get_ref|into_ref|as_mut|as_ref)$')
def m_pin_get(I, path, args):
    p = deref1(args[0]) if isinstance(args[0], Ref) else args[0]
    meth = strip_generics(path).split('::')[-1]
    if meth in ('as_mut', 'as_ref'):
        inner = p.fields[0]
        if isinstance(inner, BoxV):
            return Adt('Pin', 0, [Ref(LV(inner.cell, 0))])
        return Adt('Pin', 0, [inner])
    return p.fields[0]


@R.model(r'^Box::pin$')
def m_box_pin(I, path, args):
    return Adt('Pin', 0, [BoxV(args[0])])


@R.model(r'^Box::new$')
def m_box_new(I, path, args):
    return BoxV(args[0])


class Transparent:
    """MaybeUninit / ManuallyDrop style wrapper: every field projection lands on the one cell"""

    def __init__(self):
        self.cell = [None]

    def field_lv(self, i):
        return _TransLV(self)


class _TransLV(LV):
    __slots__ = ('t',)

    def __init__(self, t):
        self.t = t
        self.c, self.k = t.cell, 0

    def get(self):
        # nested wrapper projections keep returning the wrapper until the payload is written
        v = self.c[0]
        return self.t if v is None else v


@R.model(r'^Box::new_uninit$')
def m_box_new_uninit(I, path, args):
    return BoxV(Transparent())


@R.model(r'^std::boxed::box_assume_init_into_vec_unsafe$')
def m_box_into_vec(I, path, args):
    b = args[0]
    t = b.cell[0]
    v = t.cell[0] if isinstance(t, Transparent) else t
    if not isinstance(v, PyVec):
        raise Unsupported('box_assume_init_into_vec_unsafe on ' + repr(v))
    return v


@R.model(r'^<Box as (AsMut|AsRef|Deref|DerefMut|BorrowMut|Borrow)>::\w+$')
def m_box_as_mut(I, path, args):
    b = deref1(args[0])
    return Ref(LV(b.cell, 0))


@R.model(r' as (Deref|DerefMut)>::(deref|deref_mut)$')
def m_deref(I, path, args):
    """Deref for Vec -> slice, String -> str, Cow, &T: the same value"""
    v = args[0]
    t = deref1(v)
    if isinstance(t, Adt) and t.name == 'Cow':
        return mkref(t.fields[0]) if not isinstance(t.fields[0], Ref) else t.fields[0]
    if isinstance(t, BoxV):
        return Ref(LV(t.cell, 0))
    if isinstance(t, Adt) and t.name == 'Pin':
        inner = t.fields[0]
        return Ref(LV(inner.cell, 0)) if isinstance(inner, BoxV) else inner
    if hasattr(t, 'deref_model'):
        return t.deref_model(I)
    pre = _manual_impl(I, 'Deref', t)
    if pre:
        meth = path.split('::')[-1]
        n = pre + '::deref'
        if meth == 'deref_mut':
            pre2 = _manual_impl(I, 'DerefMut', t)
            n = (pre2 or pre) + '::deref_mut'
        return I.run(n, [v])
    return v


@R.model(r' as (AsRef|AsMut|Borrow|BorrowMut)>::(as_ref|as_mut|borrow|borrow_mut)$')
def m_as_ref(I, path, args):
    v = args[0]
    t = deref1(v)
    if 'AsRef<[u8]>' in path and not isinstance(t, bool) and (isinstance(t, int) or is_sym(t)):
        # <Uuid as AsRef<[u8]>>::as_ref (uuids are integers here): its 16 bytes
        from .crypto import UuidByte
        return mkref(PyVec([UuidByte(t, i) for i in range(16)]))
    pre = _manual_impl(I, 'AsRef', t)
    if pre and (pre + '::as_ref') in I.crate.index:
        return I.run(pre + '::as_ref', [v])
    return v


@R.model(r' as (Into|From)>::(into|from)$')
def m_into(I, path, args):
    """Into/From between representation-identical types (String<->str, Vec<u8><-String, Box<str>...);
    crate From impls are interpreted"""
    v = args[0]
    q = qself(path)
    if q:
        if path.endswith('::into'):
            src_ty, dst = q[0], q[1][q[1].index('<') + 1:-1] if '<' in q[1] else ''
        else:
            dst, src_ty = q[0], q[1][q[1].index('<') + 1:-1] if '<' in q[1] else ''
        dl = strip_generics(dst).split('::')[-1]
        sl = strip_generics(src_ty).split('::')[-1]
        if _norm_ty(dst) == _norm_ty(src_ty):
            return v
        # crate-defined From impl for destination type?
        cands = []
        for prefix in I.impls.get(('From', dl), []):
            n = prefix + '::from'
            if n in I.crate.index:
                lst = I.crate.index[n]
                for w in range(len(lst)):
                    f = I.crate.func(n, w)
                    at = strip_generics(f.argtypes[0])
                    if at.split('::')[-1] == sl:
                        cands.append((n, f, at))
        if not [x for x in cands if x[2] == strip_generics(src_ty) or x[2].endswith('::' + strip_generics(src_ty)) or strip_generics(src_ty).endswith('::' + x[2])]:
            # impls generated by derive macros (thiserror's #[from]) are not in the source-level impl index:
            # look through every one-argument `from` function of the crate that returns the destination type
            cache = I.env.setdefault('_from_fns', {})
            if dl not in cache:
                lst = []
                for n, fl in I.crate.index.items():
                    if not n.endswith('>::from'):
                        continue
                    for w in range(len(fl)):
                        f = I.crate.func(n, w)
                        if f.nargs == 1 and strip_generics(f.ret or '').split('::')[-1] == dl:
                            lst.append((n, f, strip_generics(f.argtypes[0])))
                cache[dl] = lst
            have = {id(x[1]) for x in cands}
            cands += [x for x in cache[dl] if x[2].split('::')[-1] == sl and id(x[1]) not in have]
        if cands:
            # several source types may share their last path segment (io::Error, anyhow::Error, ...): prefer the
            # candidate whose full path agrees with the source type of this call
            st = strip_generics(src_ty)
            exact = [x for x in cands if x[2] == st or x[2].endswith('::' + st) or st.endswith('::' + x[2])]
            if len(exact) == 1 or (exact and len(cands) > 1):
                n, f, _ = exact[0]
                I.encoded.add(n)
                return I.exec_body(f, [v])
            if len(cands) == 1:
                n, f, _ = cands[0]
                I.encoded.add(n)
                return I.exec_body(f, [v])
            raise Unsupported('ambiguous From impl for ' + dst + ' from ' + src_ty + ': ' + ', '.join(x[2] for x in cands))
        if dl == 'Vec' and sl in ('String', 'str'):
            from . import strings
            return strings.into_bytes(I, v)
        if dl == 'Error' and 'anyhow' in dst:
            return Adt('anyhow::Error', 0, [v])
        if dl == 'Box':
            return v if isinstance(v, BoxV) else BoxV(v)
        if dl == 'Option':
            return Some(v)
    return v


# ----------------------------------------------------------------------------- Option / Result

def _is_some(o):
    return o.variant == 1


@R.model(r'^std::option::Option::(is_some|is_none|unwrap|expect|take|map|and_then|unwrap_or|unwrap_or_else|unwrap_or_default|'
         r'ok_or|ok_or_else|as_ref|as_mut|as_deref|as_deref_mut|cloned|copied|flatten|is_some_and|is_none_or|or|or_else|'
         r'filter|map_or|map_or_else|replace|insert|get_or_insert_with|iter|ok|xor|zip|and|unwrap_unchecked|inspect|transpose|get_or_insert|take_if|unzip|iter_mut)$')
def m_option(I, path, args):
    meth = strip_generics(path).split('::')[-1]
    a0 = args[0]
    o = deref1(a0)
    if not isinstance(o, Adt) or o.name != 'Option':
        raise Unsupported(f'Option::{meth} on {o!r}')
    some = o.variant == 1
    if meth == 'is_some':
        return some
    if meth == 'is_none':
        return not some
    if meth in ('unwrap', 'expect', 'unwrap_unchecked'):
        if not some:
            raise Panic('Option::' + meth + ' on None', path)
        return o.fields[0]
    if meth == 'take':
        lv = a0.lv
        lv.set(NONE())
        return o
    if meth == 'replace':
        a0.lv.set(Some(args[1]))
        return o
    if meth == 'insert':
        nv = Some(args[1])
        a0.lv.set(nv)
        return Ref(LV(nv.fields, 0))
    if meth == 'get_or_insert_with':
        if not some:
            nv = Some(I.call_value(args[1], []))
            a0.lv.set(nv)
            o = nv
        return Ref(LV(o.fields, 0))
    if meth == 'map':
        return Some(I.call_value(args[1], [o.fields[0]])) if some else NONE()
    if meth == 'inspect':
        if some:
            I.call_value(args[1], [Ref(LV(o.fields, 0))])
        return o
    if meth == 'and_then':
        return I.call_value(args[1], [o.fields[0]]) if some else NONE()
    if meth == 'and':
        return args[1] if some else NONE()
    if meth == 'filter':
        if some and I.ctx.branch(I.call_value(args[1], [Ref(LV(o.fields, 0))])):
            return o
        return NONE()
    if meth == 'unwrap_or':
        return o.fields[0] if some else args[1]
    if meth == 'unwrap_or_else':
        return o.fields[0] if some else I.call_value(args[1], [])
    if meth == 'unwrap_or_default':
        if some:
            return o.fields[0]
        return m_default(I, '<' + generic_args(path)[0][0] + ' as Default>::default', [])
    if meth == 'map_or':
        return I.call_value(args[2], [o.fields[0]]) if some else args[1]
    if meth == 'map_or_else':
        return I.call_value(args[2], [o.fields[0]]) if some else I.call_value(args[1], [])
    if meth == 'ok_or':
        return Ok(o.fields[0]) if some else Err(args[1])
    if meth == 'ok_or_else':
        return Ok(o.fields[0]) if some else Err(I.call_value(args[1], []))
    if meth in ('as_ref', 'as_mut'):
        return Some(Ref(LV(o.fields, 0))) if some else NONE()
    if meth in ('as_deref', 'as_deref_mut'):
        if not some:
            return NONE()
        inner = o.fields[0]
        if isinstance(inner, BoxV):
            return Some(Ref(LV(inner.cell, 0)))
        return Some(Ref(LV(o.fields, 0)))
    if meth == 'cloned':
        return Some(clone_val(deref1(o.fields[0]))) if some else NONE()
    if meth == 'copied':
        return Some(copy_val(deref1(o.fields[0]))) if some else NONE()
    if meth == 'flatten':
        return o.fields[0] if some else NONE()
    if meth == 'is_some_and':
        return I.call_value(args[1], [o.fields[0]]) if some else False
    if meth == 'is_none_or':
        return I.call_value(args[1], [o.fields[0]]) if some else True
    if meth == 'or':
        return o if some else args[1]
    if meth == 'or_else':
        return o if some else I.call_value(args[1], [])
    if meth == 'xor':
        b = args[1]
        if some and b.variant == 0:
            return o
        if not some and b.variant == 1:
            return b
        return NONE()
    if meth == 'zip':
        b = args[1]
        return Some(Tuple(o.fields[0], b.fields[0])) if some and b.variant == 1 else NONE()
    if meth == 'ok':
        raise Unsupported('Option::ok')
    if meth == 'transpose':
        # Option<Result<T,E>> -> Result<Option<T>,E>
        if not some:
            return Ok(NONE())
        inner = o.fields[0]
        return Ok(Some(inner.fields[0])) if inner.variant == 0 else inner
    if meth == 'get_or_insert':
        if not some:
            nv = Some(args[1])
            a0.lv.set(nv)
            o = nv
        return Ref(LV(o.fields, 0))
    if meth == 'take_if':
        if some and I.ctx.branch(I.call_value(args[1], [Ref(LV(o.fields, 0))])):
            a0.lv.set(NONE())
            return o
        return NONE()
    if meth == 'unzip':
        if not some:
            return Tuple(NONE(), NONE())
        return Tuple(Some(o.fields[0].fields[0]), Some(o.fields[0].fields[1]))
    if meth in ('iter', 'iter_mut'):
        from .iterators import ListIter
        return ListIter([Ref(LV(o.fields, 0))] if some else [])
    raise Unsupported('Option::' + meth)


@R.model(r'^std::result::Result::(is_ok|is_err|unwrap|expect|unwrap_err|expect_err|map|map_err|and_then|ok|err|unwrap_or|'
         r'unwrap_or_else|unwrap_or_default|as_ref|as_mut|or_else|is_ok_and|is_err_and|map_or|map_or_else|and|or|iter|inspect_err|inspect|transpose|cloned|copied|flatten|as_deref)$')
def m_result(I, path, args):
    meth = strip_generics(path).split('::')[-1]
    a0 = args[0]
    r = deref1(a0)
    if not isinstance(r, Adt) or r.name != 'Result':
        raise Unsupported(f'Result::{meth} on {r!r}')
    ok = r.variant == 0
    if meth == 'is_ok':
        return ok
    if meth == 'is_err':
        return not ok
    if meth in ('unwrap', 'expect'):
        if not ok:
            raise Panic('Result::' + meth + ' on Err: ' + repr(r.fields[0])[:100], path)
        return r.fields[0]
    if meth in ('unwrap_err', 'expect_err'):
        if ok:
            raise Panic('Result::' + meth + ' on Ok', path)
        return r.fields[0]
    if meth == 'map':
        return Ok(I.call_value(args[1], [r.fields[0]])) if ok else r
    if meth == 'map_err':
        return r if ok else Err(I.call_value(args[1], [r.fields[0]]))
    if meth == 'inspect_err':
        if not ok:
            I.call_value(args[1], [Ref(LV(r.fields, 0))])
        return r
    if meth == 'inspect':
        if ok:
            I.call_value(args[1], [Ref(LV(r.fields, 0))])
        return r
    if meth == 'transpose':
        # Result<Option<T>,E> -> Option<Result<T,E>>
        if not ok:
            return Some(r)
        inner = r.fields[0]
        return Some(Ok(inner.fields[0])) if inner.variant == 1 else NONE()
    if meth in ('cloned', 'copied'):
        return Ok(clone_val(deref1(r.fields[0]))) if ok else r
    if meth == 'flatten':
        return r.fields[0] if ok else r
    if meth == 'as_deref':
        if not ok:
            return Err(Ref(LV(r.fields, 0)))
        inner = r.fields[0]
        if isinstance(inner, BoxV):
            return Ok(Ref(LV(inner.cell, 0)))
        return Ok(Ref(LV(r.fields, 0)))
    if meth == 'and_then':
        return I.call_value(args[1], [r.fields[0]]) if ok else r
    if meth == 'and':
        return args[1] if ok else r
    if meth == 'or':
        return r if ok else args[1]
    if meth == 'or_else':
        return r if ok else I.call_value(args[1], [r.fields[0]])
    if meth == 'ok':
        return Some(r.fields[0]) if ok else NONE()
    if meth == 'err':
        return NONE() if ok else Some(r.fields[0])
    if meth == 'unwrap_or':
        return r.fields[0] if ok else args[1]
    if meth == 'unwrap_or_else':
        return r.fields[0] if ok else I.call_value(args[1], [r.fields[0]])
    if meth == 'unwrap_or_default':
        if ok:
            return r.fields[0]
        return m_default(I, '<' + generic_args(path)[0][0] + ' as Default>::default', [])
    if meth in ('as_ref', 'as_mut'):
        return Adt('Result', r.variant, [Ref(LV(r.fields, 0))])
    if meth == 'is_ok_and':
        return I.call_value(args[1], [r.fields[0]]) if ok else False
    if meth == 'is_err_and':
        return I.call_value(args[1], [r.fields[0]]) if not ok else False
    if meth == 'map_or':
        return I.call_value(args[2], [r.fields[0]]) if ok else args[1]
    if meth == 'map_or_else':
        return I.call_value(args[2], [r.fields[0]]) if ok else I.call_value(args[1], [r.fields[0]])
    raise Unsupported('Result::' + meth)


# ----------------------------------------------------------------------------- closures

@R.model(r' as (Fn|FnMut|FnOnce)>::(call|call_mut|call_once)$')
def m_fn_call(I, path, args):
    return I.call_fn_trait(args[0], args[1])


# ----------------------------------------------------------------------------- mem / ptr / hints

@R.model(r'^std::mem::replace$')
def m_mem_replace(I, path, args):
    lv = args[0].lv
    old = lv.get()
    lv.set(args[1])
    return old


@R.model(r'^std::mem::take$')
def m_mem_take(I, path, args):
    lv = args[0].lv
    old = lv.get()
    if isinstance(old, PyVec):
        lv.set(PyVec([]))
    elif isinstance(old, PyMap):
        lv.set(PyMap([], old.kind))
    elif isinstance(old, str) or isinstance(old, (ZStr, TokStr)):
        lv.set('')
    elif isinstance(old, Adt) and old.name == 'Option':
        lv.set(NONE())
    else:
        raise Unsupported('mem::take of ' + repr(old))
    return old


@R.model(r'^std::mem::swap$')
def m_mem_swap(I, path, args):
    a, b = args[0].lv, args[1].lv
    x, y = a.get(), b.get()
    a.set(y)
    b.set(x)
    return UNIT()


@R.model(r'^std::mem::(drop|forget)$', r'^drop$')
def m_drop(I, path, args):
    return UNIT()


@R.model(r'^(core|std)::hint::(black_box|must_use)$', r'^must_use$', r'^anyhow::__private::must_use$')
def m_ident(I, path, args):
    return args[0]


@R.model(r'^std::intrinsics::(cold_path|assume|assert_inhabited|likely|unlikely)$', r'^std::hint::assert_unchecked$')
def m_intrinsic_noop(I, path, args):
    if path.endswith(('likely', 'unlikely')):
        return args[0]
    return UNIT()


# ----------------------------------------------------------------------------- panics

@R.model(r'^(core|std)::panicking::(panic|panic_fmt|panic_display|panic_explicit|unreachable_display|assert_failed|'
         r'panic_nounwind|panic_cannot_unwind|panic_bounds_check)$', r'^panic$', r'^(std::rt::)?begin_panic$',
         r'^(core|std)::option::(unwrap_failed|expect_failed)$', r'^(core|std)::result::unwrap_failed$',
         r'^(core::)?panicking::assert_failed$', r'^(std::rt::)?panic_fmt$', r'^unreachable_display$',
         r'^(core::)?slice::index::slice_\w+_fail$', r'^(core::)?str::slice_error_fail$', r'^panic_display$',
         r'^unwrap_failed$', r'^expect_failed$', r'^assert_failed$', r'^panic_explicit$')
def m_panic(I, path, args):
    msg = ''
    for a in args:
        d = deref1(a)
        if isinstance(d, str):
            msg = d
            break
    raise Panic('explicit panic: ' + (msg or path), path)


# ----------------------------------------------------------------------------- fmt / log: no content

class FmtArgs:
    """format_args!: pieces are not reconstructed; `args` keeps the values for format! models"""

    def __init__(self, pieces, args):
        self.pieces, self.args = pieces, args


@R.model(r'^(std::fmt::|core::fmt::)?Arguments::(new|new_const|new_v1|new_v1_formatted|from_str|from_str_nonconst)$')
def m_fmt_arguments(I, path, args):
    pieces = deref1(args[0]) if args else None
    fargs = deref1(args[1]) if len(args) > 1 else None
    return FmtArgs(pieces, fargs)


@R.model(r'^log::__private_api::(log|loc|enabled)$', r'^(log::)?max_level$', r'^log::__private_api::GlobalLogger$',
         r'^<Level as PartialOrd>::(le|lt|ge|gt)$', r'^<log::Level as PartialOrd>::(le|lt|ge|gt)$',
         r'^<Level as PartialOrd<LevelFilter>>::(le|lt|ge|gt)$', first=True)
def m_log(I, path, args):
    """log crate: logging disabled (max_level = Off), nothing evaluated"""
    last = strip_generics(path).split('::')[-1]
    if last in ('le', 'lt', 'ge', 'gt'):
        return False
    if last == 'enabled':
        return False
    return Opaque('log')


@R.const_model(r'^log::|GlobalLogger')
def c_log(I, c):
    return Opaque(c)


@R.model(r'^std::fmt::Formatter::(write_str|write_fmt|debug_\w+|pad|pad_integral|alternate|width|precision)$',
         r' as (std::fmt::)?(Debug|Display)>::fmt$', r'^std::fmt::Write::write_\w+$', r'^std::fmt::write$')
def m_formatter(I, path, args):
    """Formatter output is not tracked (Debug/Display of errors and log messages only)"""
    f = deref1(args[0])
    if path.endswith('::fmt') and hasattr(deref1(args[1]), 'append_text'):
        from . import strings
        deref1(args[1]).append_text(strings.display(I, args[0]))
        return Ok(UNIT())
    if hasattr(f, 'append_text'):
        meth = strip_generics(path).split('::')[-1]
        from . import strings
        if meth == 'write_str':
            f.append_text(deref1(args[1]))
            return Ok(UNIT())
        if meth == 'write_fmt':
            f.append_text(strings.format_args(I, args[1]))
            return Ok(UNIT())
        raise Unsupported('Formatter::' + meth + ' with tracked output')
    return Ok(UNIT())
