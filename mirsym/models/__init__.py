"""Registry of models for callees outside the crate.

A model is keyed by a regular expression over the callee path with generic arguments removed
(`strip_generics`).  The key of every model that was actually used on a run is written into the
evidence file under `trusted_base`.
"""
import re


class Model:
    __slots__ = ('key', 'rx', 'fn', 'doc')

    def __init__(self, key, fn, doc=''):
        self.key, self.rx, self.fn, self.doc = key, re.compile(key), fn, doc


class Registry:
    def __init__(self):
        self.models = []
        self.consts = []
        self._cache = {}

    def add(self, pattern, fn, doc='', first=False):
        if first:
            self.models.insert(0, Model(pattern, fn, doc))
        else:
            self.models.append(Model(pattern, fn, doc))
        self._cache.clear()

    def model(self, *patterns, doc='', first=False):
        def deco(fn):
            for p in patterns:
                self.add(p, fn, doc or (fn.__doc__ or ''), first)
            return fn
        return deco

    def const_model(self, pattern):
        def deco(fn):
            self.consts.append((re.compile(pattern), fn))
            return fn
        return deco

    def lookup(self, sp):
        try:
            return self._cache[sp]
        except KeyError:
            pass
        hit = None
        for m in self.models:
            if m.rx.search(sp):
                hit = m
                break
        self._cache[sp] = hit
        return hit

    def const(self, sp):
        for rx, fn in self.consts:
            if rx.search(sp):
                return fn
        return None


REGISTRY = Registry()

from . import core, containers, iterators, strings, extern, crypto, sqlite, http, serde_de  # noqa: E402,F401
