"""String / str models over four representations:
  python str  concrete
  TokStr      abstract token: equality by id, length by uninterpreted strlen(id)
  ZStr        z3 sequence-theory string (char count stands for byte length: ASCII assumption)
  SegStr      concatenation of literal pieces and 32-hex-digit uuid pieces (object names)
"""
import re

import z3

from . import REGISTRY as R
from .core import (val_eq, z_and, z_or, z_not, z_any, z_all, generic_args, qself, FmtArgs, m_panic)
from ..parser import Unsupported, strip_generics
from ..values import (Adt, LV, Ref, BoxV, PyVec, PySlice, PyMap, Opaque, TokStr, ZStr, SegStr, NumStr, Bytes, STRLEN, Some, NONE,
                      Ok, Err, Tuple, UNIT, is_sym, copy_val, clone_val, deref, deref1, mkref)
from ..explore import Panic

HEX = '0123456789abcdef'


def zs(v):
    """to z3 string term"""
    if isinstance(v, str):
        return z3.StringVal(v)
    if isinstance(v, ZStr):
        return v.t
    raise Unsupported(f'no sequence form for {v!r}')


def _seg_of(v):
    if isinstance(v, NumStr):
        return [('num', v.v)]
    if isinstance(v, SegStr):
        return v.segs
    if isinstance(v, str):
        return [v] if v else []
    return None


def _split_seg(segs):
    """normalise to a list of units: single chars and uuid pieces"""
    out = []
    for s in segs:
        if isinstance(s, str):
            out.extend(s)
        else:
            out.append(s)
    return out


def _piece_width(piece):
    return 36 if piece[0] == 'uuidh' else 32


def _uuid_piece_eq(piece, chars):
    """uuid piece vs concrete chars (32 hex digits, or the 36-char hyphenated form for a 'uuidh' piece)"""
    s = ''.join(chars)
    if piece[0] == 'uuidh':
        if len(s) != 36 or any(s[k] != '-' for k in (8, 13, 18, 23)):
            return False
        s = s.replace('-', '')
        if len(s) != 32:
            return False
    if not all(c in HEX for c in s):
        return False
    return piece[1] == int(s, 16)


def _has_num(segs):
    return any(not isinstance(x, str) and x[0] == 'num' for x in segs)


def seg_eq_num(a, b):
    """equality when variable-length number pieces occur: supported shapes are literal(+piece)*  with identical
    literal skeleton, or concrete string vs literal + trailing number"""
    a, b = list(a), list(b)
    if all(isinstance(x, str) for x in a) or all(isinstance(x, str) for x in b):
        conc, seg = (a, b) if all(isinstance(x, str) for x in a) else (b, a)
        text = ''.join(conc)
        if len(seg) == 1 and not isinstance(seg[0], str):
            ci = _canon_int(text)
            return False if ci is None else seg[0][1] == ci
        if len(seg) == 2 and isinstance(seg[0], str) and not isinstance(seg[1], str) and seg[1][0] == 'num':
            if not text.startswith(seg[0]):
                return False
            ci = _canon_int(text[len(seg[0]):])
            return False if ci is None else seg[1][1] == ci
        raise Unsupported(f'string comparison {a!r} vs {b!r}')
    if len(a) == len(b) and all((isinstance(x, str) and isinstance(y, str)) or
                                (not isinstance(x, str) and not isinstance(y, str) and x[0] == y[0]) for x, y in zip(a, b)):
        res = True
        for x, y in zip(a, b):
            if isinstance(x, str):
                if x != y:
                    return False
            else:
                res = z_and(res, x[1] == y[1])
        return res
    # different skeletons: decide by the leading literals when they already disagree
    la = a[0] if isinstance(a[0], str) else ''
    lb = b[0] if isinstance(b[0], str) else ''
    n = min(len(la), len(lb))
    if la[:n] != lb[:n]:
        return False
    raise Unsupported(f'string comparison {a!r} vs {b!r}')


def seg_eq(a, b):
    if _has_num(a) or _has_num(b):
        return seg_eq_num(a, b)
    ua, ub = _split_seg(a), _split_seg(b)
    la = sum(1 if isinstance(x, str) else _piece_width(x) for x in ua)
    lb = sum(1 if isinstance(x, str) else _piece_width(x) for x in ub)
    if la != lb:
        return False
    res = True
    i = j = 0
    while i < len(ua) and j < len(ub):
        x, y = ua[i], ub[j]
        if isinstance(x, str) and isinstance(y, str):
            if x != y:
                return False
            i += 1
            j += 1
        elif not isinstance(x, str) and not isinstance(y, str):
            if x[0] != y[0]:
                # a simple and a hyphenated rendering at the same position: the lengths of what follows differ
                raise Unsupported('misaligned uuid pieces in string comparison')
            res = z_and(res, x[1] == y[1])
            i += 1
            j += 1
        elif isinstance(x, str):
            wd = _piece_width(y)
            chunk = ua[i:i + wd]
            if len(chunk) < wd or not all(isinstance(c, str) for c in chunk):
                raise Unsupported('misaligned uuid pieces in string comparison')
            res = z_and(res, _uuid_piece_eq(y, chunk))
            i += wd
            j += 1
        else:
            wd = _piece_width(x)
            chunk = ub[j:j + wd]
            if len(chunk) < wd or not all(isinstance(c, str) for c in chunk):
                raise Unsupported('misaligned uuid pieces in string comparison')
            res = z_and(res, _uuid_piece_eq(x, chunk))
            i += 1
            j += wd
        if res is False:
            return False
    return res


def _canon_int(s):
    """int value of a concrete string iff it is a canonical decimal rendering, else None"""
    if re.fullmatch(r'-?[1-9][0-9]*|0', s) and s != '-0':
        return int(s)
    return None


def str_eq(a, b):
    a, b = deref(a), deref(b)
    if isinstance(a, str) and isinstance(b, str):
        return a == b
    if isinstance(a, NumStr) or isinstance(b, NumStr):
        if isinstance(a, NumStr) and isinstance(b, NumStr):
            return a.v == b.v
        n, o = (a, b) if isinstance(a, NumStr) else (b, a)
        if isinstance(o, str):
            ci = _canon_int(o)
            return False if ci is None else (n.v == ci)
        if isinstance(o, SegStr):
            if len(o.segs) == 1 and isinstance(o.segs[0], tuple) and o.segs[0][0] == 'num':
                return n.v == o.segs[0][1]
            return False if all(isinstance(x, str) or x[0] != 'num' for x in o.segs) and not all(isinstance(x, str) for x in o.segs) else _numstr_vs_seg(n, o)
        if isinstance(o, TokStr):
            return False        # token strings stand for non-numeric text (harness convention, stated in the evidence)
        raise Unsupported(f'NumStr compared with {o!r}')
    if isinstance(a, TokStr) and isinstance(b, TokStr):
        return a.id == b.id
    if isinstance(a, TokStr) or isinstance(b, TokStr):
        t, o = (a, b) if isinstance(a, TokStr) else (b, a)
        if isinstance(o, str):
            # concrete strings are interned as negative ids by the harness convention
            return t.id == intern_tok(o)
        raise Unsupported(f'TokStr compared with {o!r}')
    if isinstance(a, SegStr) or isinstance(b, SegStr):
        sa, sb = _seg_of(a), _seg_of(b)
        if sa is None or sb is None:
            raise Unsupported(f'SegStr compared with {a!r} / {b!r}')
        return seg_eq(sa, sb)
    if isinstance(a, (ZStr, str)) and isinstance(b, (ZStr, str)):
        return zs(a) == zs(b)
    if isinstance(a, (PyVec, PySlice)) or isinstance(b, (PyVec, PySlice)):
        # str vs bytes
        return val_eq(into_bytes(None, a) if not isinstance(a, (PyVec, PySlice)) else a,
                      into_bytes(None, b) if not isinstance(b, (PyVec, PySlice)) else b)
    raise Unsupported(f'string equality {a!r} vs {b!r}')


def _numstr_vs_seg(n, o):
    raise Unsupported(f'NumStr compared with structured string {o!r}')


_INTERN = {}


def intern_tok(s):
    """stable negative id for a concrete string when compared with token strings"""
    if s not in _INTERN:
        _INTERN[s] = -(len(_INTERN) + 1)
    return _INTERN[s]


def tok_of(s):
    return TokStr(z3.IntVal(intern_tok(s)))


def str_lt(a, b):
    a, b = deref(a), deref(b)
    if isinstance(a, str) and isinstance(b, str):
        return a.encode() < b.encode()
    if isinstance(a, (ZStr, str)) and isinstance(b, (ZStr, str)):
        return zs(a) < zs(b)
    if isinstance(a, TokStr) and isinstance(b, TokStr):
        # token strings are ordered by their ids (the replay renders ids zero-padded, so the byte order of
        # the concrete strings is the id order)
        return a.id < b.id
    if isinstance(a, TokStr) and b == '':
        return False                       # nothing sorts before the empty string
    if a == '' and isinstance(b, TokStr):
        return b.id != intern_tok('')      # "" < every non-empty string
    raise Unsupported(f'string order {a!r} vs {b!r}')


I64_MAX = 2 ** 63 - 1
NUM_REPRESENTATIVES = [0, 7, -1, I64_MAX, I64_MAX + 1, -I64_MAX - 1, -I64_MAX - 2, 8210266876799, 8210266876800, -8334601228800,
                       -8334601228801, 10 ** 29]


def concretize_numeric(I, s, meth):
    """character-level access to the decimal rendering of a symbolic integer: the path is continued with representative
    concrete values (sign, zero, i64 and chrono range boundaries on both sides, a 30-digit value); the remaining values are
    not examined character by character (cover note 'numeric text examined for representative values only')"""
    from ..explore import PathAbort
    terms = []
    if isinstance(s, NumStr) and is_sym(s.v):
        terms = [s.v]
    elif isinstance(s, SegStr):
        terms = [x[1] for x in s.segs if isinstance(x, tuple) and x[0] == 'num' and is_sym(x[1])]
        if any(isinstance(x, tuple) and x[0] != 'num' and is_sym(x[1]) for x in s.segs):
            raise Unsupported(f'str::{meth} on symbolic string')
    else:
        raise Unsupported(f'str::{meth} on symbolic string')
    vals = {}
    for t in terms:
        for r in NUM_REPRESENTATIVES:
            if I.ctx.branch(t == r):
                vals[id(t)] = r
                break
        else:
            I.ctx.cover('numeric text examined for representative values only')
            raise PathAbort()
    if isinstance(s, NumStr):
        return str(vals.get(id(s.v), s.v))
    out = ''
    for x in s.segs:
        if isinstance(x, str):
            out += x
        elif x[0] == 'num':
            out += str(vals.get(id(x[1]), x[1]))
        elif x[0] == 'uuid':
            out += '%032x' % x[1]
        else:
            h = '%032x' % x[1]
            out += '-'.join([h[:8], h[8:12], h[12:16], h[16:20], h[20:]])
    return out


def str_len(I, v):
    v = deref(v)
    if isinstance(v, str):
        return len(v.encode())
    if isinstance(v, TokStr):
        return STRLEN(v.id)
    if isinstance(v, ZStr):
        return z3.Length(v.t)
    if isinstance(v, SegStr):
        return v.length()
    if isinstance(v, NumStr):
        return num_len(I, v.v)
    if hasattr(v, 'len_model'):
        return v.len_model(I)
    if isinstance(v, (PyVec, PySlice)):
        return len(v.items)
    raise Unsupported(f'len of {v!r}')


def num_len(I, t):
    """number of characters of the decimal rendering (forks by magnitude; values beyond 40 digits unsupported)"""
    if isinstance(t, int):
        return len(str(t))
    c = I.ctx
    neg = 1 if c.branch(t < 0) else 0
    for d in range(1, 41):
        bound = 10 ** d
        if c.branch(z3.And(t > -bound, t < bound)):
            return d + neg
    raise Unsupported('decimal rendering longer than 40 digits')


def into_bytes(I, v):
    v = deref(v)
    if isinstance(v, str):
        return PyVec(list(v.encode()))
    if isinstance(v, (PyVec, PySlice, Bytes)):
        return v
    return Bytes('utf8', v)


def from_bytes(I, b):
    b = deref(b)
    if isinstance(b, Bytes) and b.tag == 'utf8':
        return Ok(b.payload)
    if isinstance(b, Bytes):
        return Ok(b)       # structured payloads stand for valid UTF-8 documents
    if isinstance(b, (PyVec, PySlice)) and len(b.items) == 1 and isinstance(b.items[0], Bytes):
        return from_bytes(I, b.items[0])
    if isinstance(b, (PyVec, PySlice)):
        if all(isinstance(x, int) for x in b.items):
            try:
                return Ok(bytes(b.items).decode('utf-8'))
            except UnicodeDecodeError:
                return Err(Opaque('Utf8Error'))
        raise Unsupported('utf8 check of symbolic bytes')
    if isinstance(b, (str, ZStr, TokStr, SegStr)):
        return Ok(b)
    raise Unsupported(f'from_utf8 of {b!r}')


def concat2(a, b):
    a, b = deref(a), deref(b)
    if isinstance(a, str) and isinstance(b, str):
        return a + b
    if type(a).__name__ in ('JsonStr', 'JsonText') or type(b).__name__ in ('JsonStr', 'JsonText'):
        from .extern import JsonText, JsonStr
        if all(isinstance(x, (str, JsonStr, JsonText)) for x in (a, b)):
            return JsonText([a, b])
    if a == '':
        return b
    if b == '':
        return a
    if isinstance(a, (SegStr, NumStr)) or isinstance(b, (SegStr, NumStr)):
        sa, sb = _seg_of(a), _seg_of(b)
        if sa is None or sb is None:
            raise Unsupported(f'concat {a!r} + {b!r}')
        return SegStr(list(sa) + list(sb))
    if isinstance(a, (ZStr, str)) and isinstance(b, (ZStr, str)):
        if a == '':
            return b
        if b == '':
            return a
        return ZStr(z3.Concat(zs(a), zs(b)))
    if a == '':
        return b
    if b == '':
        return a
    raise Unsupported(f'concat {a!r} + {b!r}')


def concat_all(I, xs):
    acc = ''
    for x in xs:
        x = deref1(x)
        if isinstance(x, int):
            x = chr(x)
        acc = concat2(acc, x)
    return acc


def int_to_str(v):
    if isinstance(v, int):
        return str(v)
    return NumStr(v)


def display(I, val, ty=''):
    """Display::fmt output as a string value"""
    v = deref(val)
    t = strip_generics(ty).lstrip('&').split('::')[-1]
    if isinstance(v, (str, TokStr, ZStr, SegStr, NumStr)):
        return v
    if isinstance(v, bool):
        return 'true' if v else 'false'
    if isinstance(v, Adt) and v.name == 'Simple':
        return SegStr([('uuid', v.fields[0])])
    if isinstance(v, Adt) and v.name == 'Hyphenated':
        return _hyph(v.fields[0])
    if t == 'Uuid':
        return _hyph(v)
    if isinstance(v, int) or (is_sym(v) and z3.is_int(v)):
        return int_to_str(v)
    if hasattr(v, 'display_model'):
        return v.display_model(I)
    if isinstance(v, Adt):
        pre = I.impls.get(('Display', v.name))
        if pre:
            buf = StrBuf()
            I.run(pre[0] + '::fmt', [mkref(v), mkref(buf)])
            return buf.text
        return OPAQUE_TEXT
    return OPAQUE_TEXT


 
def _hyph(u):
    if isinstance(u, int):
        h = '%032x' % u
        return '-'.join([h[:8], h[8:12], h[12:16], h[16:20], h[20:]])
    return SegStr([('uuidh', u)])


OPAQUE_TEXT = '⟪opaque⟫'


class StrBuf:
    """a fmt::Formatter / fmt::Write sink that keeps the text"""

    def __init__(self):
        self.text = ''

    def append_text(self, s):
        self.text = concat2(self.text, s)


def parse_template(tpl):
    """the nightly's compact format_args template: <len><literal bytes> | 0xC0 arg | 0xC1.. arg with
    options | 0x00 end"""
    out = []
    i, n = 0, len(tpl)
    argi = 0
    while i < n:
        b = tpl[i]
        if b == 0:
            break
        if b < 0x80:
            out.append(bytes(tpl[i + 1:i + 1 + b]).decode('utf-8', 'replace'))
            i += 1 + b
        elif b == 0x80:
            # two-byte length literal
            ln = tpl[i + 1] | (tpl[i + 2] << 8)
            out.append(bytes(tpl[i + 3:i + 3 + ln]).decode('utf-8', 'replace'))
            i += 3 + ln
        elif b == 0xC0:
            out.append(('arg', argi, False))
            argi += 1
            i += 1
        else:
            # placeholder with options: flags byte then optional fields; only used for {:?}/{:#?} style logs
            out.append(('arg', argi, True))
            argi += 1
            i += 1
            # skip option bytes up to next literal/placeholder boundary conservatively: options are encoded
            # as (flags) followed by parameters; treat as opaque text
            while i < n and tpl[i] not in (0, 0xC0, 0xC1) and tpl[i] >= 0x80:
                i += 1
            # remaining bytes of this placeholder are unknown: stop structured parsing
            out.append(OPAQUE_TEXT)
            return out, False
    return out, True


def format_args(I, fa):
    fa = deref1(fa)
    if not isinstance(fa, FmtArgs):
        raise Unsupported('format of ' + repr(fa))
    pieces = fa.pieces
    if isinstance(pieces, str):
        return pieces
    if not isinstance(pieces, (PyVec, PySlice)):
        raise Unsupported('format template ' + repr(pieces))
    tpl = pieces.items
    parts, ok = parse_template(tpl)
    args = fa.args.items if fa.args is not None else []
    acc = ''
    for p in parts:
        if isinstance(p, str):
            acc = concat2(acc, p)
        else:
            a = args[p[1]]
            kind, val, ty = a[1], a[2], a[3]
            if kind != 'display' or p[2]:
                acc = concat2(acc, OPAQUE_TEXT) if isinstance(acc, str) else acc
            else:
                acc = concat2(acc, display(I, val, ty))
    return acc


@R.model(r'^(core::fmt::rt::)?Argument::new_(display|debug|lower_hex|upper_hex|lower_exp|pointer|binary|octal)$',
         r'^core::fmt::rt::Argument::new_\w+$')
def m_fmt_argument(I, path, args):
    kind = strip_generics(path).split('::')[-1][4:]
    ga = generic_args(path)
    ty = ga[-1][0] if ga and ga[-1] else ''
    return ('fmtarg', kind, args[0], ty)


@R.model(r'^std::fmt::format$', r'^alloc::fmt::format$', r'^std::fmt::format::format_inner$')
def m_format(I, path, args):
    return format_args(I, args[0])


@R.model(r'^anyhow::__private::format_err$', r'^anyhow::Error::msg$', r'^anyhow::__private::\w+$')
def m_anyhow(I, path, args):
    return Adt('anyhow::Error', 0, [Opaque('msg')])


@R.model(r' as ToString>::to_string$', r' as SpecToString>::spec_to_string$')
def m_to_string(I, path, args):
    q = qself(path)
    return display(I, args[0], q[0] if q else '')


@R.model(r'^<(std::string::)?String as From>::from$', r'^<(str|std::string::String|String) as ToOwned>::to_owned$', r'^(std::string::)?String::from$',
         r'^<(std::string::)?String as (FromStr|std::str::FromStr)>::from_str$', r'^std::str::to_owned$')
def m_string_from(I, path, args):
    v = deref(args[0])
    if path.endswith('from_str'):
        return Ok(v)
    return v


@R.model(r'^(std::string::)?String::(new|with_capacity)$')
def m_string_new(I, path, args):
    return ''


@R.model(r'^(std::string::)?String::(len|is_empty|as_str|as_bytes|into_bytes|push_str|push|clear|as_mut_str|into_boxed_str|'
         r'from_utf8|from_utf8_lossy|truncate|capacity|reserve|insert_str|as_mut_vec)$',
         r'^(core::)?str::(len|is_empty|as_bytes|starts_with|ends_with|strip_prefix|strip_suffix|parse|to_string|to_owned|'
         r'to_lowercase|to_uppercase|to_ascii_lowercase|to_ascii_uppercase|trim|trim_start|trim_end|contains|find|rfind|split|splitn|split_once|rsplit_once|'
         r'chars|bytes|char_indices|is_ascii|as_ptr|is_char_boundary|get|split_at|lines|split_whitespace|eq_ignore_ascii_case|repeat|into_string|trim_matches|trim_start_matches|trim_end_matches|replace)$',
         r'^(core::)?str::<impl str>::\w+$')
def m_str_method(I, path, args):
    meth = strip_generics(path).split('::')[-1]
    a0 = args[0]
    s = deref(a0)
    if not isinstance(s, (str, TokStr, ZStr, SegStr, NumStr)):
        if hasattr(s, 'len_model'):
            if meth in ('len', 'capacity'):
                return s.len_model(I)
            if meth in ('as_str', 'as_mut_str'):
                return a0 if isinstance(a0, Ref) else mkref(s)
            if meth in ('as_bytes', 'into_bytes'):
                return into_bytes(I, s)
            if meth in ('to_string', 'to_owned', 'into_string', 'into_boxed_str'):
                return s
            if meth == 'is_empty':
                return s.len_model(I) == 0
            if meth == 'push_str':
                a0.lv.set(concat2(s, deref(args[1])))
                return UNIT()
            if meth == 'push' and isinstance(args[1], int):
                a0.lv.set(concat2(s, chr(args[1])))
                return UNIT()
            if meth == 'reserve':
                return UNIT()
        if meth in ('from_utf8',):
            r = from_bytes(I, a0)
            return r
        if meth == 'from_utf8_lossy':
            r = from_bytes(I, a0)
            if r.variant == 0:
                return Adt('Cow', 0, [r.fields[0]])
            raise Unsupported('from_utf8_lossy of invalid utf8')
        raise Unsupported(f'str::{meth} on {s!r}')
    c = I.ctx
    if meth == 'len':
        return str_len(I, s)
    if meth == 'capacity':
        return str_len(I, s)
    if meth == 'is_empty':
        if isinstance(s, NumStr):
            return False
        if isinstance(s, str):
            return s == ''
        if isinstance(s, SegStr):
            return s.length() == 0
        return str_len(I, s) == 0
    if meth in ('as_str', 'as_mut_str', 'to_string', 'to_owned', 'into_boxed_str', 'into_string', 'reserve'):
        if meth == 'reserve':
            return UNIT()
        if meth in ('as_str', 'as_mut_str'):
            return a0 if isinstance(a0, Ref) else mkref(s)
        return s
    if meth in ('as_bytes', 'into_bytes'):
        return into_bytes(I, s)
    if meth == 'push_str':
        a0.lv.set(concat2(s, deref(args[1])))
        return UNIT()
    if meth == 'push':
        ch = args[1]
        if not isinstance(ch, int):
            raise Unsupported('push of symbolic char')
        a0.lv.set(concat2(s, chr(ch)))
        return UNIT()
    if meth == 'clear':
        a0.lv.set('')
        return UNIT()
    if meth in ('starts_with', 'ends_with'):
        p = deref(args[1])
        if isinstance(p, int):
            p = chr(p)
        return _affix(s, p, meth == 'starts_with')
    if meth in ('strip_prefix', 'strip_suffix'):
        p = deref(args[1])
        if isinstance(p, int):
            p = chr(p)
        pre = meth == 'strip_prefix'
        if c.branch(_affix(s, p, pre)):
            n = str_len(I, p)
            return Some(_substr(I, s, n, None) if pre else _substr(I, s, 0, str_len(I, s) - n))
        return NONE()
    if meth == 'parse':
        ga = generic_args(path)
        ty = ga[-1][0] if ga else ''
        return parse_str(I, s, ty)
    if meth == 'contains':
        p = deref(args[1])
        if isinstance(p, int):
            p = chr(p)
        if isinstance(s, str) and isinstance(p, str):
            return p in s
        return z3.Contains(zs(s), zs(p))
    if meth == 'is_ascii':
        if isinstance(s, str):
            return s.isascii()
        if isinstance(s, SegStr):
            return all(x.isascii() for x in s.segs if isinstance(x, str))
        return True   # ZStr/TokStr: ASCII assumption (stated)
    if meth in ('trim', 'trim_start', 'trim_end', 'to_lowercase', 'to_uppercase', 'to_ascii_lowercase', 'to_ascii_uppercase',
                'chars', 'bytes', 'split', 'splitn', 'find', 'rfind', 'split_once', 'rsplit_once', 'char_indices', 'lines', 'repeat', 'replace'):
        if not isinstance(s, str):
            s = concretize_numeric(I, s, meth)
        if meth == 'trim':
            return s.strip()
        if meth == 'trim_start':
            return s.lstrip()
        if meth == 'trim_end':
            return s.rstrip()
        if meth in ('to_lowercase', 'to_ascii_lowercase'):
            return s.lower()
        if meth in ('to_uppercase', 'to_ascii_uppercase'):
            return s.upper()
        from .iterators import ListIter
        if meth == 'chars':
            return ListIter([ord(ch) for ch in s])
        if meth == 'bytes':
            return ListIter(list(s.encode()))
        if meth == 'char_indices':
            out, off = [], 0
            for ch in s:
                out.append(Tuple(off, ord(ch)))
                off += len(ch.encode())
            return ListIter(out)
        p = deref(args[1]) if len(args) > 1 else None
        if isinstance(p, int):
            p = chr(p)
        if meth == 'split':
            return ListIter(s.split(p))
        if meth == 'splitn':
            return ListIter(s.split(deref(args[2]) if not isinstance(deref(args[2]), int) else chr(deref(args[2])), args[1] - 1))
        if meth == 'lines':
            return ListIter(s.splitlines())
        if meth == 'find':
            i = s.find(p)
            return Some(len(s[:i].encode())) if i >= 0 else NONE()
        if meth == 'rfind':
            i = s.rfind(p)
            return Some(len(s[:i].encode())) if i >= 0 else NONE()
        if meth == 'split_once':
            i = s.find(p)
            return Some(Tuple(s[:i], s[i + len(p):])) if i >= 0 else NONE()
        if meth == 'rsplit_once':
            i = s.rfind(p)
            return Some(Tuple(s[:i], s[i + len(p):])) if i >= 0 else NONE()
        if meth == 'repeat':
            return s * args[1]
        if meth == 'replace':
            return s.replace(p, deref(args[2]))
    if meth == 'is_char_boundary':
        return True
    if meth == 'get':
        from .containers import _range_of
        n = str_len(I, s)
        if is_sym(n):
            raise Unsupported('str::get on symbolic-length string')
        r = _range_of(I, args[1], n, panic=False)
        return NONE() if r is None else Some(_substr(I, s, r[0], r[1]))
    if meth == 'split_at':
        k = args[1]
        return Tuple(_substr(I, s, 0, k), _substr(I, s, k, None))
    if meth == 'eq_ignore_ascii_case':
        o = deref(args[1])
        if isinstance(s, str) and isinstance(o, str):
            return s.lower() == o.lower()
        raise Unsupported('eq_ignore_ascii_case symbolic')
    raise Unsupported('str method ' + meth)


def _affix(s, p, prefix):
    if isinstance(s, str) and isinstance(p, str):
        return s.startswith(p) if prefix else s.endswith(p)
    if isinstance(s, NumStr) or (isinstance(s, SegStr) and _has_num(s.segs)):
        if not isinstance(p, str) or not prefix:
            raise Unsupported(f'affix test {s!r} / {p!r}')
        segs = _seg_of(s)
        if p == '':
            return True
        if isinstance(segs[0], str):
            lit = segs[0]
            if len(lit) >= len(p):
                return lit.startswith(p)
            if not p.startswith(lit):
                return False
            rest = p[len(lit):]
        else:
            rest = p
        # the next piece is a number: it begins with '-' or a digit
        if rest[0] not in '-0123456789':
            return False
        raise Unsupported(f'prefix test reaching into a number piece: {s!r} / {p!r}')
    if isinstance(s, SegStr) or isinstance(p, SegStr):
        us, up = _split_seg(_seg_of(s)), _split_seg(_seg_of(p))
        ls = sum(1 if isinstance(x, str) else 32 for x in us)
        lp = sum(1 if isinstance(x, str) else 32 for x in up)
        if lp > ls:
            return False
        if not prefix:
            raise Unsupported('SegStr ends_with')
        # take the prefix of s of length lp, aligned to units
        taken, acc = [], 0
        for x in us:
            if acc >= lp:
                break
            w = 1 if isinstance(x, str) else 32
            if acc + w > lp:
                raise Unsupported('prefix cuts a uuid piece')
            taken.append(x)
            acc += w
        return seg_eq(taken, up)
    if isinstance(s, TokStr) or isinstance(p, TokStr):
        raise Unsupported('prefix test on token string')
    return z3.PrefixOf(zs(p), zs(s)) if prefix else z3.SuffixOf(zs(p), zs(s))


def _substr(I, s, a, b):
    """s[a..b] (b None = to end); a, b concrete or symbolic ints for ZStr"""
    if isinstance(s, str):
        bs = s.encode()
        if is_sym(a) or is_sym(b):
            raise Unsupported('symbolic slice of concrete string')
        sub = bs[a:b]
        try:
            return sub.decode()
        except UnicodeDecodeError:
            raise Panic('byte index is not a char boundary')
    if isinstance(s, SegStr) and _has_num(s.segs):
        if b is None and isinstance(a, int) and isinstance(s.segs[0], str) and a <= len(s.segs[0].encode()):
            lit = s.segs[0].encode()[a:].decode()
            rest = ([lit] if lit else []) + list(s.segs[1:])
            if len(rest) == 1 and not isinstance(rest[0], str) and rest[0][0] == 'num':
                return NumStr(rest[0][1])
            return SegStr(rest)
        raise Unsupported(f'slice of {s!r}')
    if isinstance(s, SegStr):
        us = _split_seg(s.segs)
        out, acc = [], 0
        n = s.length()
        b = n if b is None else b
        if is_sym(a) or is_sym(b):
            raise Unsupported('symbolic slice of SegStr')
        for x in us:
            w = 1 if isinstance(x, str) else 32
            if acc >= a and acc + w <= b:
                out.append(x)
            elif acc < b and acc + w > a:
                raise Unsupported('slice cuts a uuid piece')
            acc += w
        r = SegStr(out)
        if all(isinstance(x, str) for x in r.segs):
            return ''.join(r.segs)
        return r
    if isinstance(s, ZStr):
        ln = z3.Length(s.t)
        if b is None:
            return ZStr(z3.SubString(s.t, a, ln - a))
        return ZStr(z3.SubString(s.t, a, b - a))
    raise Unsupported(f'slice of {s!r}')


@R.model(r'^<(str|std::string::String) as (std::ops::)?(Index|IndexMut)>::(index|index_mut)$',
         r'^(core::)?str::traits::<impl (std::ops::)?(Index|SliceIndex).*>::(index|get)$',
         r' as SliceIndex<str>>::(index|get|index_mut|get_mut)$')
def m_str_index(I, path, args):
    from .containers import _range_of
    if 'SliceIndex' in path:
        rng, s = args[0], deref(args[1])
    else:
        s, rng = deref(args[0]), args[1]
    n = str_len(I, s)
    rng = deref1(rng)
    if is_sym(n):
        # ZStr with symbolic length: ranges with concrete endpoints; out-of-range is a panic path
        f = rng.fields
        name = rng.name
        a = f[0] if name in ('Range', 'RangeFrom') else 0
        b = f[1] if name == 'Range' else (f[0] if name == 'RangeTo' else None)
        ok = (a <= n) if b is None else z3.And(a <= b, b <= n)
        if not I.ctx.branch(ok):
            raise Panic('str index out of range')
        return _substr(I, s, a, b)
    a, b = _range_of(I, rng, n)
    return _substr(I, s, a, b)


I64_MIN, I64_MAX = -2 ** 63, 2 ** 63 - 1
PARSE_RANGES = {'i64': (I64_MIN, I64_MAX), 'u64': (0, 2 ** 64 - 1), 'usize': (0, 2 ** 64 - 1), 'u32': (0, 2 ** 32 - 1),
                'i32': (-2 ** 31, 2 ** 31 - 1), 'u8': (0, 255), 'u16': (0, 65535), 'i128': (-2 ** 127, 2 ** 127 - 1),
                'u128': (0, 2 ** 128 - 1)}


def parse_str(I, s, ty):
    """str::parse::<T>()"""
    t = strip_generics(ty).split('::')[-1]
    if t in PARSE_RANGES:
        lo, hi = PARSE_RANGES[t]
        if isinstance(s, str):
            if re.fullmatch(r'[+-]?[0-9]+', s) and (lo < 0 or not s.startswith('-')):
                v = int(s)
                if lo <= v <= hi:
                    return Ok(v)
            return Err(Opaque('ParseIntError'))
        if isinstance(s, NumStr):
            ok = z_and(s.v >= lo, s.v <= hi)
            return Ok(s.v) if I.ctx.branch(ok) else Err(Opaque('ParseIntError'))
        if isinstance(s, SegStr) and _has_num(s.segs):
            if any(isinstance(x, str) for x in s.segs):
                return Err(Opaque('ParseIntError'))
            raise Unsupported('parse of adjacent number pieces')
        if isinstance(s, ZStr):
            st = s.t
            c = I.ctx
            # sign handling as in core::num: optional '+', or '-' for signed types; at least one digit
            first = z3.SubString(st, 0, 1)
            neg = first == z3.StringVal('-')
            plus = first == z3.StringVal('+')
            body = z3.If(z3.Or(neg, plus), z3.SubString(st, 1, z3.Length(st) - 1), st)
            mag = z3.StrToInt(body)          # -1 unless body is a non-empty digit string
            val = z3.If(neg, -mag, mag)
            valid = z3.And(mag >= 0, val >= lo, val <= hi)
            if lo >= 0:
                valid = z3.And(valid, z3.Or(z3.Not(neg), mag == 0) if False else z3.Not(neg))
            if c.branch(valid):
                r = c.fresh_int('parsed')
                c.assume(r == val)
                return Ok(r)
            return Err(Opaque('ParseIntError'))
        raise Unsupported(f'parse::<{t}> of {s!r}')
    if t == 'Uuid':
        return uuid_parse(I, s)
    # crate FromStr impls (Status, Tag, ...)
    pre = I.impls.get(('FromStr', t))
    if pre:
        return I.run(pre[0] + '::from_str', [mkref(s)])
    raise Unsupported(f'parse::<{ty}>')


def uuid_parse(I, s):
    s = deref(s)
    if isinstance(s, (PyVec, PySlice)):
        r = from_bytes(I, s)
        if r.variant:
            return Err(Opaque('uuid::Error'))
        s = r.fields[0]
    if isinstance(s, Bytes) and s.tag == 'utf8':
        s = s.payload
    if isinstance(s, str):
        t = s
        if re.fullmatch(r'[0-9a-fA-F]{32}', t):
            return Ok(int(t, 16))
        if re.fullmatch(r'[0-9a-fA-F]{8}-[0-9a-fA-F]{4}-[0-9a-fA-F]{4}-[0-9a-fA-F]{4}-[0-9a-fA-F]{12}', t):
            return Ok(int(t.replace('-', ''), 16))
        m = re.fullmatch(r'\{(.*)\}', t) or re.fullmatch(r'urn:uuid:(.*)', t)
        if m:
            return uuid_parse(I, m.group(1))
        return Err(Opaque('uuid::Error'))
    if isinstance(s, NumStr):
        return Err(Opaque('uuid::Error'))       # harness keeps |v| < 10^31: never 32 hex digits
    if isinstance(s, SegStr) and _has_num(s.segs):
        return Err(Opaque('uuid::Error'))
    if isinstance(s, SegStr):
        if len(s.segs) == 1 and not isinstance(s.segs[0], str) and s.segs[0][0] in ('uuid', 'uuidh'):
            return Ok(s.segs[0][1])      # Uuid::parse_str accepts the simple and the hyphenated form
        if all(isinstance(x, str) for x in s.segs):
            return uuid_parse(I, ''.join(s.segs))
        return Err(Opaque('uuid::Error'))   # literal text mixed with a uuid piece never has a valid uuid length/shape
    raise Unsupported(f'Uuid parse of {s!r}')


@R.model(r'^(core|std)::str::from_utf8$', r'^from_utf8$', r'^(core|std)::str::from_utf8_unchecked$',
         r'^(core::)?str::converts::from_utf8$')
def m_from_utf8(I, path, args):
    r = from_bytes(I, args[0])
    if 'unchecked' in path:
        return r.fields[0]
    return r


@R.model(r'^<(std::string::)?String as (std::ops::)?(Add|AddAssign)>::(add|add_assign)$')
def m_str_add(I, path, args):
    if path.endswith('add_assign'):
        lv = args[0].lv
        lv.set(concat2(lv.get(), deref(args[1])))
        return UNIT()
    return concat2(args[0], deref(args[1]))


@R.model(r'^<(std::string::)?String as (std::fmt::)?Write>::(write_str|write_char|write_fmt)$')
def m_string_write(I, path, args):
    lv = args[0].lv
    if path.endswith('write_fmt'):
        lv.set(concat2(lv.get(), format_args(I, args[1])))
    elif path.endswith('write_char'):
        lv.set(concat2(lv.get(), chr(args[1])))
    else:
        lv.set(concat2(lv.get(), deref(args[1])))
    return Ok(UNIT())


@R.model(r'^char::methods::<impl char>::(is_ascii_digit|is_ascii|is_whitespace|is_alphanumeric|is_ascii_alphanumeric|'
         r'is_alphabetic|is_ascii_alphabetic|is_ascii_hexdigit|is_digit|to_ascii_lowercase|to_ascii_uppercase|len_utf8|is_ascii_punctuation|is_control|is_uppercase|is_lowercase|is_numeric|is_ascii_uppercase|is_ascii_lowercase)$',
         r'^char::methods::\w+$',
         r'^(core::)?num::<impl u8>::(is_ascii_digit|is_ascii|is_ascii_alphanumeric|is_ascii_alphabetic|is_ascii_hexdigit|'
         r'to_ascii_lowercase|to_ascii_uppercase|is_ascii_punctuation|is_ascii_uppercase|is_ascii_lowercase|is_ascii_whitespace|is_ascii_control|is_ascii_graphic|eq_ignore_ascii_case)$',
         r'^char::methods::<impl char>::(is_ascii_whitespace|is_ascii_control|is_ascii_graphic|eq_ignore_ascii_case|to_digit)$',
         r'^(core::)?num::(is_ascii_\w+|is_ascii|to_ascii_lowercase|to_ascii_uppercase|eq_ignore_ascii_case)$')
def m_char(I, path, args):
    meth = strip_generics(path).split('::')[-1]
    ch = deref1(args[0])
    if not isinstance(ch, int):
        raise Unsupported('char method on symbolic char')
    c = chr(ch)
    if meth == 'is_ascii_digit':
        return c in '0123456789'
    if meth == 'is_ascii_whitespace':
        return c in ' \t\n\x0c\r'
    if meth == 'is_ascii_control':
        return ch < 32 or ch == 127
    if meth == 'is_ascii_graphic':
        return 33 <= ch <= 126
    if meth == 'eq_ignore_ascii_case':
        o = deref1(args[1])
        if not isinstance(o, int):
            raise Unsupported('char method on symbolic char')
        return c.lower() == chr(o).lower() if ch < 128 and o < 128 else ch == o
    if meth == 'to_digit':
        d = '0123456789abcdefghijklmnopqrstuvwxyz'.find(c.lower())
        return Some(d) if 0 <= d < args[1] else NONE()
    if meth == 'is_ascii_uppercase':
        return 'A' <= c <= 'Z'
    if meth == 'is_ascii_lowercase':
        return 'a' <= c <= 'z'
    if meth == 'is_ascii':
        return ch < 128
    if meth == 'is_whitespace':
        return c.isspace()
    if meth in ('is_alphanumeric',):
        return c.isalnum()
    if meth == 'is_ascii_alphanumeric':
        return ch < 128 and c.isalnum()
    if meth == 'is_alphabetic':
        return c.isalpha()
    if meth == 'is_ascii_alphabetic':
        return ch < 128 and c.isalpha()
    if meth == 'is_ascii_hexdigit':
        return c in '0123456789abcdefABCDEF'
    if meth == 'is_digit':
        return c in '0123456789abcdefghijklmnopqrstuvwxyz'[:args[1]] or c in '0123456789ABCDEFGHIJKLMNOPQRSTUVWXYZ'[:args[1]]
    if meth == 'to_ascii_lowercase':
        return ord(c.lower()) if ch < 128 else ch
    if meth == 'to_ascii_uppercase':
        return ord(c.upper()) if ch < 128 else ch
    if meth == 'len_utf8':
        return len(c.encode())
    if meth == 'is_ascii_punctuation':
        import string
        return c in string.punctuation
    if meth == 'is_control':
        import unicodedata
        return unicodedata.category(c) == 'Cc'
    if meth == 'is_uppercase':
        return c.isupper()
    if meth == 'is_lowercase':
        return c.islower()
    if meth == 'is_numeric':
        return c.isnumeric()
    raise Unsupported('char::' + meth)
