"""rusqlite at its call boundary, for the crate code that is written over a handful of fixed SQL statements
(the local server).  The SQL engine itself is C behind FFI and is *modelled*, not executed:

* a database file = named tables of rows in insertion (rowid) order, the committed state shared by all
  connections opened on the same path;
* a `Transaction` works on a private copy that replaces the committed state on `commit` and is discarded when
  the transaction value is dropped (or the process stops) — deferred/immediate locking is not modelled, the
  connections of one harness run one after the other;
* statements are parsed from the SQL text the crate passes (`SELECT cols FROM t [WHERE col = ?|'lit'] [LIMIT n]`,
  `INSERT [OR REPLACE] INTO t (cols) VALUES (?|'lit', ...)`, `CREATE TABLE IF NOT EXISTS t (col TYPE [PRIMARY KEY], ...)`);
  anything else is `Unsupported` (inconclusive), never guessed.  A PRIMARY KEY column is unique: a second insert
  of the same key is a constraint error, `OR REPLACE` replaces the row.  A query without ORDER BY returns rows
  in insertion order (what SQLite does for a table scan; validated by the replay on the real engine);
* every call into the engine is a fault point (`sql_fault` hook of the harness): error before the call has any
  effect, or (commit / auto-committed execute) effect made durable and then an error — a lost reply or a process
  stop right after.
"""
import re

from ..parser import Unsupported
from ..values import Adt, Ref, LV, PyVec, PySlice, Bytes, Opaque, Some, NONE, Ok, Err, UNIT, clone_val, deref, deref1, mkref
from .core import val_eq
from . import REGISTRY as R


class ProcessStop(Exception):
    """the process died right after an engine call became durable (raised through the code under test; the harness
    catches it and continues with the committed database content only)"""


class SqlError:
    """rusqlite::Error"""
    rust_type = 'rusqlite::Error'

    def __init__(self, kind, msg=''):
        self.kind, self.msg = kind, msg

    def __repr__(self):
        return f'rusqlite::Error({self.kind}: {self.msg})'


class Database:
    def __init__(self, path):
        self.path = path
        self.tables = {}          # name -> {'cols': [..], 'pk': col|None, 'rows': [dict]}
        self.log = []

    def snapshot(self):
        return {n: {'cols': list(t['cols']), 'pk': t['pk'], 'rows': [dict(r) for r in t['rows']]} for n, t in self.tables.items()}


class World:
    """all database files of one explored path, by path string"""

    def __init__(self):
        self.dbs = {}

    def open(self, path):
        key = repr(path) if not isinstance(path, str) else path
        if key not in self.dbs:
            self.dbs[key] = Database(key)
        return self.dbs[key]


class Conn:
    """rusqlite::Connection (also what a Transaction derefs to)"""
    rust_type = 'Connection'

    def __init__(self, db, txn=None):
        self.db, self.txn = db, txn
        self.open_txn = None

    def tables(self):
        return self.txn.tables if self.txn is not None else self.db.tables


class Txn:
    rust_type = 'Transaction'

    def __init__(self, conn):
        self.conn = conn
        self.tables = conn.db.snapshot()
        self.done = False
        self.drop_behavior = 'Rollback'
        self.view = Conn(conn.db, self)

    def deref_model(self, I):
        return mkref(self.view)

    def on_drop(self, I):
        # DropBehavior::Rollback is rusqlite's default; Transaction::set_drop_behavior may change it
        if not self.done:
            self.done = True
            if self.drop_behavior == 'Commit':
                self.conn.db.tables = self.tables
                self.conn.db.log.append('commit-on-drop')
            elif self.drop_behavior in ('Rollback', 'Ignore'):
                self.conn.db.log.append('rollback')
            else:
                raise Unsupported('DropBehavior::' + str(self.drop_behavior))


def _world(I):
    w = I.env.get('sqlite_world')
    if w is None:
        w = I.env['sqlite_world'] = World()
    return w


def _fault(I, what, durable):
    """ask the harness whether this engine call fails: None | 'before' | 'after' (after only offered when `durable`)"""
    f = I.env.get('sql_fault')
    if f is None:
        return None
    return f(I, what, durable)


def _err(kind='SqliteFailure', msg='injected fault'):
    return Err(SqlError(kind, msg))


# ----------------------------------------------------------------------------- SQL subset

_ws = re.compile(r'\s+')


def _norm(sql):
    if not isinstance(sql, str):
        raise Unsupported('non-literal SQL text ' + repr(sql)[:80])
    return _ws.sub(' ', sql.strip().rstrip(';').strip())


def _split_commas(s):
    out, d, cur = [], 0, ''
    for ch in s:
        if ch == '(':
            d += 1
        elif ch == ')':
            d -= 1
        if ch == ',' and d == 0:
            out.append(cur.strip())
            cur = ''
        else:
            cur += ch
    if cur.strip():
        out.append(cur.strip())
    return out


def _term(tok, params, used):
    tok = tok.strip()
    if tok == '?':
        if used[0] >= len(params):
            raise Unsupported('SQL statement with more placeholders than parameters')
        v = params[used[0]]
        used[0] += 1
        return v
    m = re.fullmatch(r"'([^']*)'", tok)
    if m:
        return m.group(1)
    if re.fullmatch(r'-?\d+', tok):
        return int(tok)
    raise Unsupported('SQL term ' + tok)


def parse(sql):
    s = _norm(sql)
    m = re.fullmatch(r'CREATE TABLE IF NOT EXISTS (\w+) \((.*)\)', s, re.I)
    if m:
        cols, pk = [], None
        for c in _split_commas(m.group(2)):
            mm = re.fullmatch(r'(\w+)(?: (\w+))?( PRIMARY KEY)?', c, re.I)
            if not mm:
                raise Unsupported('SQL column definition ' + c)
            cols.append(mm.group(1))
            if mm.group(3):
                pk = mm.group(1)
        return ('create', m.group(1), cols, pk)
    m = re.fullmatch(r'SELECT (.*?) FROM (\w+)(?: WHERE (\w+) = (\?|\'[^\']*\'|-?\d+))?( LIMIT (\d+))?', s, re.I)
    if m:
        return ('select', m.group(2), [c.strip() for c in m.group(1).split(',')], m.group(3), m.group(4), int(m.group(6)) if m.group(6) else None)
    m = re.fullmatch(r'INSERT( OR REPLACE)? INTO (\w+) \((.*?)\) VALUES \((.*)\)', s, re.I)
    if m:
        return ('insert', m.group(2), [c.strip() for c in m.group(3).split(',')], _split_commas(m.group(4)), bool(m.group(1)))
    raise Unsupported('SQL statement outside the modelled subset: ' + s[:120])


def _param_values(I, params):
    """params![...] = &[&dyn ToSql]: every element is turned into its SQL value through the crate's own ToSql impl
    where it has one (StoredUuid), Vec<u8>/String/integers are stored as they are"""
    p = deref(params)
    if not isinstance(p, (PyVec, PySlice, Adt)) and str(getattr(p, 'path', '')).strip() in ('[]', '()'):
        p = PyVec([])          # an empty parameter list written as a bare constant
    items = p.items if isinstance(p, (PyVec, PySlice)) else list(p.fields) if isinstance(p, Adt) else None
    if items is None:
        raise Unsupported('SQL parameters ' + repr(p)[:80])
    out = []
    for it in items:
        v = deref(it)
        if isinstance(v, Adt) and ('ToSql', v.name) in I.impls:
            r = I.call(f'<{v.name} as ToSql>::to_sql', [mkref(v)])
            if r.variant != 0:
                raise Unsupported('ToSql::to_sql returned Err')
            v = r.fields[0]
            if isinstance(v, Adt) and v.name == 'ToSqlOutput':
                v = v.fields[0]
        out.append(v)
    return out


def _exec(I, conn, sql, params):
    st = parse(sql)
    tabs = conn.tables()
    if st[0] == 'create':
        _, name, cols, pk = st
        if name not in tabs:
            tabs[name] = {'cols': cols, 'pk': pk, 'rows': []}
        return 0
    if st[0] == 'insert':
        _, name, cols, vals, replace = st
        if name not in tabs:
            return SqlError('SqliteFailure', 'no such table ' + name)
        t = tabs[name]
        used = [0]
        pv = _param_values(I, params)
        row = {c: None for c in t['cols']}
        for c, tok in zip(cols, vals):
            if c not in row:
                return SqlError('SqliteFailure', 'no such column ' + c)
            row[c] = _term(tok, pv, used)
        if used[0] != len(pv):
            return SqlError('InvalidParameterCount', f'{len(pv)} parameters for {used[0]} placeholders')
        if t['pk'] is not None:
            for i, r in enumerate(t['rows']):
                if I.ctx.branch(val_eq(r[t['pk']], row[t['pk']])):
                    if not replace:
                        return SqlError('SqliteFailure', 'UNIQUE constraint failed: ' + name + '.' + t['pk'])
                    t['rows'].pop(i)
                    break
        t['rows'].append(row)
        return 1
    raise Unsupported('execute of a ' + st[0] + ' statement')


def _query(I, conn, sql, params):
    st = parse(sql)
    if st[0] != 'select':
        raise Unsupported('query_row of a ' + st[0] + ' statement')
    _, name, cols, wcol, wtok, limit = st
    tabs = conn.tables()
    if name not in tabs:
        return SqlError('SqliteFailure', 'no such table ' + name)
    t = tabs[name]
    pv = _param_values(I, params)
    used = [0]
    want = _term(wtok, pv, used) if wcol else None
    if used[0] != len(pv):
        return SqlError('InvalidParameterCount', f'{len(pv)} parameters for {used[0]} placeholders')
    out = []
    for r in t['rows']:
        if wcol is None or I.ctx.branch(val_eq(r[wcol], want)):
            out.append((cols, [r[c] for c in cols]))
            if limit is not None and len(out) >= limit:
                break
    return out


# ----------------------------------------------------------------------------- models

@R.model(r'^Connection::open$', r'^rusqlite::Connection::open$')
def m_open(I, path, args):
    if _fault(I, 'open', False) == 'before':
        return _err()
    return Ok(Conn(_world(I).open(deref(args[0]))))


@R.model(r'^<P as AsRef>::as_ref$', r'^<PathBuf as AsRef>::as_ref$', r'^<Path as AsRef>::as_ref$', r'^<&Path as AsRef>::as_ref$')
def m_path_as_ref(I, path, args):
    return args[0]


@R.model(r'^Path::join$', r'^std::path::Path::join$')
def m_path_join(I, path, args):
    a, b = deref(args[0]), deref(args[1])
    if isinstance(a, str) and isinstance(b, str):
        return a.rstrip('/') + '/' + b
    return Adt('PathBuf', 0, [a, b])


@R.model(r'^rusqlite::transaction::transaction$', r'^Connection::transaction$')
def m_transaction(I, path, args):
    conn = deref(args[0])
    if _fault(I, 'begin', False) == 'before':
        return _err()
    if conn.open_txn is not None and not conn.open_txn.done:
        # the previous Transaction borrowed the connection mutably, so for code that compiles it is dead by now: its
        # destructor ran (possibly inside drop glue the interpreter does not trace) and rolled it back
        conn.open_txn.on_drop(I)
    t = Txn(conn)
    conn.open_txn = t
    return Ok(t)


@R.model(r'^<Transaction as Deref>::deref$', r'^<rusqlite::Transaction as Deref>::deref$')
def m_txn_deref(I, path, args):
    return mkref(deref(args[0]).view)


@R.model(r'^Transaction::commit$', r'^rusqlite::Transaction::commit$')
def m_commit(I, path, args):
    t = deref(args[0])
    f = _fault(I, 'commit', True)
    if f == 'before':
        t.done = True
        return _err()
    t.conn.db.tables = t.tables
    t.done = True
    t.conn.db.log.append('commit')
    if f == 'after':
        return _err(msg='injected fault after the commit became durable')
    if f == 'stop':
        raise ProcessStop()
    return Ok(UNIT())


@R.model(r'^Connection::execute$', r'^rusqlite::Connection::execute$')
def m_execute(I, path, args):
    conn = deref(args[0])
    auto = conn.txn is None
    f = _fault(I, 'execute', auto)
    if f == 'before':
        return _err()
    r = _exec(I, conn, deref(args[1]), args[2])
    if isinstance(r, SqlError):
        return Err(r)
    if f == 'after':
        return _err(msg='injected fault after the statement was auto-committed')
    if f == 'stop' and auto:
        raise ProcessStop()
    return Ok(r)


class Row:
    rust_type = 'Row'

    def __init__(self, cols, vals):
        self.cols, self.vals = cols, vals


@R.model(r'^Connection::query_row$', r'^rusqlite::Connection::query_row$')
def m_query_row(I, path, args):
    conn = deref(args[0])
    if _fault(I, 'query', False) == 'before':
        return _err()
    r = _query(I, conn, deref(args[1]), args[2])
    if isinstance(r, SqlError):
        return Err(r)
    if not r:
        return Err(SqlError('QueryReturnedNoRows'))
    row = Row(*r[0])
    return I.call_value(args[3], [mkref(row)])


@R.model(r'^Row::get$', r'^rusqlite::Row::get$')
def m_row_get(I, path, args):
    from .core import generic_args
    row, idx = deref(args[0]), deref(args[1])
    if isinstance(idx, str):
        if idx not in row.cols:
            return Err(SqlError('InvalidColumnName', idx))
        v = row.vals[row.cols.index(idx)]
    elif isinstance(idx, int):
        if idx >= len(row.vals):
            return Err(SqlError('InvalidColumnIndex', str(idx)))
        v = row.vals[idx]
    else:
        raise Unsupported('Row::get index ' + repr(idx))
    ga = generic_args(path)
    ty = ga[-1][-1].strip() if ga and ga[-1] else ''
    tname = ty.split('::')[-1]
    if ('FromSql', tname) in I.impls:
        r = I.call(f'<{tname} as FromSql>::column_result', [Adt('ValueRef', 0, [v])])
        if r.variant != 0:
            return Err(SqlError('FromSqlConversionFailure', repr(r.fields[0])))
        return Ok(r.fields[0])
    if v is None:
        return Err(SqlError('InvalidColumnType', 'NULL'))
    return Ok(clone_val(v))


@R.model(r'^ValueRef::as_str$', r'^rusqlite::types::ValueRef::as_str$')
def m_valueref_as_str(I, path, args):
    v = deref(args[0]).fields[0]
    if v is None or isinstance(v, (PyVec, Bytes, int)):
        return Err(Opaque('FromSqlError::InvalidType'))
    return Ok(v)


@R.model(r' as OptionalExtension>::optional$')
def m_optional(I, path, args):
    r = args[0]
    if r.variant == 0:
        return Ok(Some(r.fields[0]))
    e = r.fields[0]
    if isinstance(e, SqlError) and e.kind == 'QueryReturnedNoRows':
        return Ok(NONE())
    return r


@R.model(r'^Transaction::set_drop_behavior$', r'^rusqlite::Transaction::set_drop_behavior$')
def m_set_drop_behavior(I, path, args):
    t, b = deref(args[0]), deref(args[1])
    names = ['Rollback', 'Commit', 'Ignore', 'Panic']
    if isinstance(b, Adt) and b.name in names:
        t.drop_behavior = b.name          # rustc prints a unique variant name without its enum
    elif isinstance(b, Adt) and b.name == 'DropBehavior':
        t.drop_behavior = names[b.variant] if b.variant < len(names) else ('?' + repr(b))
    else:
        n = str(getattr(b, 'path', b)).split('::')[-1]
        t.drop_behavior = n if n in names else ('?' + repr(b))
    return UNIT()


# ----------------------------------------------------------------------------- prepared statements, batches (equivalent API forms)

class Statement:
    rust_type = 'Statement'

    def __init__(self, conn, sql):
        self.conn, self.sql = conn, sql


@R.model(r'^Connection::(prepare|prepare_cached)$', r'^rusqlite::Connection::(prepare|prepare_cached)$')
def m_prepare(I, path, args):
    conn = deref(args[0])
    parse(deref(args[1]))          # an unknown statement form is inconclusive already here
    return Ok(Statement(conn, deref(args[1])))


@R.model(r'^Statement::(query_row|execute|exists|insert)$', r'^rusqlite::Statement::(query_row|execute|exists|insert)$',
         r'^CachedStatement::(query_row|execute|exists|insert)$')
def m_statement(I, path, args):
    st = deref(args[0])
    if hasattr(st, 'deref_model') and not isinstance(st, Statement):
        st = deref(st.deref_model(I))
    meth = strip_generics_last(path)
    conn = st.conn
    if meth == 'query_row':
        if _fault(I, 'query', False) == 'before':
            return _err()
        r = _query(I, conn, st.sql, args[1])
        if isinstance(r, SqlError):
            return Err(r)
        if not r:
            return Err(SqlError('QueryReturnedNoRows'))
        return I.call_value(args[2], [mkref(Row(*r[0]))])
    if meth == 'exists':
        if _fault(I, 'query', False) == 'before':
            return _err()
        r = _query(I, conn, st.sql, args[1])
        if isinstance(r, SqlError):
            return Err(r)
        return Ok(bool(r))
    auto = conn.txn is None
    f = _fault(I, 'execute', auto)
    if f == 'before':
        return _err()
    r = _exec(I, conn, st.sql, args[1])
    if isinstance(r, SqlError):
        return Err(r)
    if f == 'after':
        return _err(msg='injected fault after the statement was auto-committed')
    if f == 'stop' and auto:
        raise ProcessStop()
    return Ok(r)


def strip_generics_last(path):
    from ..parser import strip_generics
    return strip_generics(path).split('::')[-1]


@R.model(r'^Connection::execute_batch$', r'^rusqlite::Connection::execute_batch$')
def m_execute_batch(I, path, args):
    conn = deref(args[0])
    sql = deref(args[1])
    if not isinstance(sql, str):
        raise Unsupported('execute_batch of ' + repr(sql)[:60])
    for stmt in [x.strip() for x in sql.split(';') if x.strip()]:
        auto = conn.txn is None
        f = _fault(I, 'execute', auto)
        if f == 'before':
            return _err()
        r = _exec(I, conn, stmt, PyVec([]))
        if isinstance(r, SqlError):
            return Err(r)
        if f == 'after':
            return _err(msg='injected fault after the statement was auto-committed')
        if f == 'stop' and auto:
            raise ProcessStop()
    return Ok(UNIT())


@R.model(r'^Transaction::rollback$', r'^rusqlite::Transaction::rollback$')
def m_rollback(I, path, args):
    t = deref(args[0])
    t.done = True
    t.conn.db.log.append('rollback')
    return Ok(UNIT())
