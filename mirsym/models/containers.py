"""Vec / slice / HashMap / HashSet models.

Maps and sets are association lists with possibly symbolic keys: a lookup is a sequence of
solver-decided key comparisons, so nothing is ever hashed.  Iteration order is insertion order
(the real order is unspecified; properties must not depend on it — stated in the evidence)."""
import z3

from . import REGISTRY as R
from .core import val_eq, val_lt, z_and, z_or, z_not, z_any, z_all, generic_args, qself
from ..parser import Unsupported, strip_generics
from ..values import (Adt, LV, Ref, BoxV, PyVec, PySlice, PyMap, Opaque, TokStr, ZStr, Bytes, Some, NONE, Ok, Err,
                      Tuple, UNIT, is_sym, copy_val, clone_val, deref, deref1, mkref)
from ..explore import Panic
from .iterators import ListIter, DrainIter


def _vec(a):
    v = deref1(a)
    if isinstance(v, BoxV):
        v = v.cell[0]
    if not isinstance(v, (PyVec, PySlice)):
        raise Unsupported(f'expected Vec/slice, got {v!r}')
    return v


def _concrete_index(I, idx, n):
    if is_sym(idx):
        return I.ctx.concretize(idx, range(n + 1))
    return idx


# ----------------------------------------------------------------------------- Vec

@R.model(r'^Vec::(new|with_capacity)$', r'^std::vec::Vec::(new|with_capacity)$')
def m_vec_new(I, path, args):
    return PyVec([])


@R.model(r'^(std::vec::)?Vec::(push|pop|len|is_empty|clear|insert|remove|truncate|extend_from_slice|append|reverse|'
         r'first|last|first_mut|last_mut|get|get_mut|as_slice|as_mut_slice|iter|iter_mut|drain|reserve|swap_remove|'
         r'retain|dedup|contains|sort|sort_by|sort_by_key|sort_unstable|sort_unstable_by_key|binary_search_by_key|'
         r'binary_search|binary_search_by|split_off|to_vec|capacity|shrink_to_fit|into_boxed_slice|extend|resize|'
         r'starts_with|ends_with|concat|join|split_at|swap|iter_mut|leak|is_ascii|split_first|split_last|windows|chunks|copy_from_slice|fill|'
         r'sort_unstable_by|dedup_by_key|retain_mut|rotate_left|rotate_right|clone_from_slice|repeat|first_chunk|split_at_checked|extend_from_within|chunks_exact|is_sorted|to_owned|iter_rev)$',
         r'^(core|std)::slice::(len|is_empty|first|last|first_mut|last_mut|get|get_mut|iter|iter_mut|reverse|contains|sort|'
         r'sort_by|sort_by_key|sort_unstable|sort_unstable_by_key|binary_search_by_key|binary_search|binary_search_by|to_vec|starts_with|ends_with|'
         r'concat|join|split_at|swap|into_vec|is_ascii|split_first|split_last|windows|chunks|copy_from_slice|fill|'
         r'sort_unstable_by|rotate_left|rotate_right|clone_from_slice|repeat|split_at_checked|chunks_exact|is_sorted|to_owned)$',
         r'^<\[.*\]>::(concat|join|to_vec|to_owned|len|is_empty|iter|first|last|contains|starts_with|ends_with|get|split_at|copy_from_slice|sort|reverse)$')
def m_vec_method(I, path, args):
    meth = strip_generics(path).split('::')[-1]
    v = _vec(args[0])
    items = v.items
    if meth == 'push':
        v.items.append(args[1])
        return UNIT()
    if meth == 'pop':
        if not isinstance(v, PyVec):
            raise Unsupported('pop on slice')
        return Some(v.items.pop()) if v.items else NONE()
    if meth == 'len':
        return len(items)
    if meth == 'capacity':
        return len(items)
    if meth == 'is_empty':
        return len(items) == 0
    if meth == 'clear':
        v.items.clear()
        return UNIT()
    if meth == 'insert':
        i = _concrete_index(I, args[1], len(items))
        if i > len(items):
            raise Panic('Vec::insert index out of bounds')
        v.items.insert(i, args[2])
        return UNIT()
    if meth in ('remove', 'swap_remove'):
        i = _concrete_index(I, args[1], len(items))
        if i >= len(items):
            raise Panic('Vec::remove index out of bounds')
        if meth == 'remove':
            return v.items.pop(i)
        x = v.items[i]
        v.items[i] = v.items[-1]
        v.items.pop()
        return x
    if meth == 'truncate':
        n = _concrete_index(I, args[1], len(items))
        del v.items[n:]
        return UNIT()
    if meth in ('extend_from_slice',):
        v.items.extend(clone_val(x) for x in _vec(args[1]).items)
        return UNIT()
    if meth == 'append':
        o = _vec(args[1])
        v.items.extend(o.items)
        o.items.clear()
        return UNIT()
    if meth == 'extend':
        from .iterators import to_iter, drain_all
        v.items.extend(drain_all(I, to_iter(I, args[1])))
        return UNIT()
    if meth == 'reverse':
        if isinstance(v, PyVec):
            v.items.reverse()
        else:
            seg = v.items[::-1]
            v.base.items[v.start:v.end] = seg
        return UNIT()
    if meth in ('first', 'first_mut'):
        return Some(_elem_ref(v, 0)) if items else NONE()
    if meth in ('last', 'last_mut'):
        return Some(_elem_ref(v, len(items) - 1)) if items else NONE()
    if meth in ('get', 'get_mut'):
        idx = args[1]
        if isinstance(idx, Adt):
            r = _range_of(I, idx, len(items), panic=False)
            if r is None:
                return NONE()
            return Some(_subslice(v, r[0], r[1]))
        i = _concrete_index(I, idx, len(items))
        return Some(_elem_ref(v, i)) if 0 <= i < len(items) else NONE()
    if meth in ('as_slice', 'as_mut_slice', 'into_boxed_slice', 'leak', 'shrink_to_fit', 'reserve', 'into_vec'):
        if meth in ('shrink_to_fit', 'reserve'):
            return UNIT()
        return args[0]
    if meth in ('iter', 'iter_mut'):
        return ListIter(_elem_refs(v))
    if meth == 'drain':
        rng = args[1] if len(args) > 1 else None
        a, b = _range_of(I, rng, len(items)) if rng is not None else (0, len(items))
        out = v.items[a:b]
        del v.items[a:b]
        return DrainIter(out)
    if meth == 'retain':
        keep = []
        for idx in range(len(v.items)):
            if I.ctx.branch(I.call_value(args[1], [Ref(LV(v.items, idx))])):
                keep.append(v.items[idx])
        v.items[:] = keep
        return UNIT()
    if meth == 'contains':
        x = args[1]
        return z_any(val_eq(e, x) for e in items)
    if meth in ('sort', 'sort_unstable'):
        _sort(I, v, lambda a, b: val_lt(I, a, b))
        return UNIT()
    if meth in ('sort_by_key', 'sort_unstable_by_key'):
        f = args[1]
        _sort(I, v, lambda a, b: val_lt(I, I.call_value(f, [mkref(a)]), I.call_value(f, [mkref(b)])))
        return UNIT()
    if meth in ('sort_by', 'sort_unstable_by'):
        f = args[1]
        _sort(I, v, lambda a, b: I.call_value(f, [mkref(a), mkref(b)]).variant == 0)
        return UNIT()
    if meth == 'binary_search_by_key':
        key, f = args[1], args[2]
        return _binary_search(I, items, lambda e: _cmp3(I, I.call_value(f, [e]), deref1(key)), v)
    if meth == 'binary_search':
        key = args[1]
        return _binary_search(I, items, lambda e: _cmp3(I, e, key), v)
    if meth == 'binary_search_by':
        f = args[1]
        return _binary_search(I, items, lambda e: I.call_value(f, [e]).variant - 1, v)
    if meth in ('to_vec', 'to_owned'):
        return PyVec([clone_val(x) for x in items])
    if meth == 'split_off':
        n = _concrete_index(I, args[1], len(items))
        tail = v.items[n:]
        del v.items[n:]
        return PyVec(tail)
    if meth == 'starts_with':
        o = _vec(args[1]).items
        if len(o) > len(items):
            return False
        return z_all(val_eq(x, y) for x, y in zip(items, o))
    if meth == 'ends_with':
        o = _vec(args[1]).items
        if len(o) > len(items):
            return False
        return z_all(val_eq(x, y) for x, y in zip(items[len(items) - len(o):], o))
    if meth == 'swap':
        i, j = _concrete_index(I, args[1], len(items)), _concrete_index(I, args[2], len(items))
        lst = v.items if isinstance(v, PyVec) else v.base.items
        off = 0 if isinstance(v, PyVec) else v.start
        lst[off + i], lst[off + j] = lst[off + j], lst[off + i]
        return UNIT()
    if meth == 'split_at':
        n = _concrete_index(I, args[1], len(items))
        if n > len(items):
            raise Panic('split_at out of bounds')
        return Tuple(_subslice(v, 0, n), _subslice(v, n, len(items)))
    if meth == 'split_first':
        if not items:
            return NONE()
        return Some(Tuple(_elem_ref(v, 0), _subslice(v, 1, len(items))))
    if meth == 'split_last':
        if not items:
            return NONE()
        return Some(Tuple(_elem_ref(v, len(items) - 1), _subslice(v, 0, len(items) - 1)))
    if meth == 'resize':
        n = _concrete_index(I, args[1], 64)
        while len(v.items) < n:
            v.items.append(clone_val(args[2]))
        del v.items[n:]
        return UNIT()
    if meth == 'is_ascii':
        return z_all((x < 128) if not isinstance(x, int) else x < 128 for x in items)
    if meth in ('copy_from_slice',):
        o = _vec(args[1]).items
        if len(o) != len(items):
            raise Panic('copy_from_slice length mismatch')
        lst = v.items if isinstance(v, PyVec) else v.base.items
        off = 0 if isinstance(v, PyVec) else v.start
        for k, x in enumerate(o):
            lst[off + k] = copy_val(x)
        return UNIT()
    if meth == 'fill':
        lst = v.items if isinstance(v, PyVec) else v.base.items
        off = 0 if isinstance(v, PyVec) else v.start
        for k in range(len(items)):
            lst[off + k] = copy_val(args[1])
        return UNIT()
    if meth in ('concat', 'join'):
        sep = None
        if meth == 'join' and len(args) > 1:
            sep = deref(args[1])
        parts = [deref(x) for x in items]
        if parts and not isinstance(parts[0], (PyVec, PySlice)):
            # strings
            from . import strings
            out = ''
            for k, p in enumerate(parts):
                if k and sep is not None:
                    out = strings.concat2(out, sep if not isinstance(sep, int) else chr(sep))
                out = strings.concat2(out, p)
            return out
        out = []
        for k, p in enumerate(parts):
            if k and sep is not None:
                out.extend(clone_val(x) for x in (sep.items if isinstance(sep, (PyVec, PySlice)) else [sep]))
            out.extend(clone_val(x) for x in p.items)
        return PyVec(out)
    if meth in ('chunks', 'chunks_exact', 'windows'):
        from .iterators import ListIter
        n = _concrete_index(I, args[1], 1 << 30)
        if n == 0:
            raise Panic('chunk size must be non-zero')
        if meth == 'windows':
            return ListIter([_subslice(v, k, k + n) for k in range(0, len(items) - n + 1)])
        last = len(items) - (len(items) % n) if meth == 'chunks_exact' else len(items)
        return ListIter([_subslice(v, k, min(k + n, len(items))) for k in range(0, last, n)])
    if meth == 'split_at_checked':
        n = _concrete_index(I, args[1], len(items))
        if n > len(items):
            return NONE()
        return Some(Tuple(_subslice(v, 0, n), _subslice(v, n, len(items))))
    if meth in ('rotate_left', 'rotate_right'):
        n = _concrete_index(I, args[1], len(items))
        if n > len(items):
            raise Panic('rotate out of bounds')
        k = n if meth == 'rotate_left' else len(items) - n
        seg = items[k:] + items[:k]
        lst = v.items if isinstance(v, PyVec) else v.base.items
        off = 0 if isinstance(v, PyVec) else v.start
        lst[off:off + len(seg)] = seg
        return UNIT()
    if meth == 'clone_from_slice':
        o = _vec(args[1]).items
        if len(o) != len(items):
            raise Panic('clone_from_slice length mismatch')
        lst = v.items if isinstance(v, PyVec) else v.base.items
        off = 0 if isinstance(v, PyVec) else v.start
        for k, x in enumerate(o):
            lst[off + k] = clone_val(x)
        return UNIT()
    if meth == 'repeat':
        n = _concrete_index(I, args[1], 1 << 20)
        return PyVec([clone_val(x) for _ in range(n) for x in items])
    if meth == 'retain_mut':
        keep = []
        for idx in range(len(v.items)):
            if I.ctx.branch(I.call_value(args[1], [Ref(LV(v.items, idx))])):
                keep.append(v.items[idx])
        v.items[:] = keep
        return UNIT()
    if meth == 'dedup_by_key':
        out = []
        lastk = None
        for x in v.items:
            cell = [x]
            k = I.call_value(args[1], [Ref(LV(cell, 0))])
            if out and I.ctx.branch(val_eq(lastk, k)):
                continue
            out.append(cell[0])
            lastk = k
        v.items[:] = out
        return UNIT()
    if meth == 'is_sorted':
        return z_all(z_not(val_lt(I, items[k + 1], items[k])) for k in range(len(items) - 1))
    if meth == 'dedup':
        out = []
        for x in v.items:
            if out and I.ctx.branch(val_eq(out[-1], x)):
                continue
            out.append(x)
        v.items[:] = out
        return UNIT()
    raise Unsupported('Vec/slice method ' + meth)


def _elem_ref(v, i):
    if isinstance(v, PyVec):
        return Ref(LV(v.items, i))
    return Ref(LV(v.base.items, v.start + i))


def _elem_refs(v):
    if isinstance(v, PyVec):
        return [Ref(LV(v.items, i)) for i in range(len(v.items))]
    return v.ref_items()


def _subslice(v, a, b):
    if isinstance(v, PyVec):
        return PySlice(v, a, b)
    return PySlice(v.base, v.start + a, v.start + b)


def _cmp3(I, a, b):
    """three-way compare returning -1/0/1 (forks)"""
    if I.ctx.branch(val_lt(I, a, b)):
        return -1
    if I.ctx.branch(val_eq(a, b)):
        return 0
    return 1


def _sort(I, v, lt):
    """stable insertion sort over symbolic comparisons (the real merge sort computes the same stable
    permutation for a total order)"""
    lst = v.items if isinstance(v, PyVec) else v.items
    out = []
    for x in lst:
        pos = len(out)
        # find insertion point from the right: insert after the last element that is <= x
        while pos > 0 and I.ctx.branch(lt(x, out[pos - 1])):
            pos -= 1
        out.insert(pos, x)
    if isinstance(v, PyVec):
        v.items[:] = out
    else:
        v.base.items[v.start:v.end] = out


def _binary_search(I, items, cmp, v):
    """the real binary search (std's loop shape: size halving), over symbolic comparisons"""
    size = len(items)
    if size == 0:
        return Err(0)
    base = 0
    refs = _elem_refs(v)
    while size > 1:
        half = size // 2
        mid = base + half
        c = cmp(refs[mid])
        base = base if c > 0 else mid
        size -= half
    c = cmp(refs[base])
    if c == 0:
        return Ok(base)
    return Err(base + (1 if c < 0 else 0))


def _range_of(I, rng, n, panic=True):
    """(start,end) for a Range* Adt against length n"""
    rng = deref1(rng)
    if not isinstance(rng, Adt) and hasattr(rng, 'path') and str(rng.path).split('::')[-1] == 'RangeFull':
        rng = Adt('RangeFull', 0, [])      # the unit struct written as a bare constant
    name = rng.name
    f = rng.fields
    if name == 'RangeFull':
        a, b = 0, n
    elif name == 'RangeFrom':
        a, b = f[0], n
    elif name == 'RangeTo':
        a, b = 0, f[0]
    elif name == 'Range':
        a, b = f[0], f[1]
    elif name == 'RangeInclusive':
        a, b = f[0], f[1] + 1
    elif name == 'RangeToInclusive':
        a, b = 0, f[0] + 1
    else:
        raise Unsupported('range ' + repr(rng))
    a = _concrete_index(I, a, n)
    b = _concrete_index(I, b, n)
    if a > b or b > n:
        if panic:
            raise Panic(f'slice index out of range: {a}..{b} of {n}')
        return None
    return a, b


@R.model(r'^<(Vec|\[.*\]|\[T\]|std::vec::Vec) as (std::ops::)?(Index|IndexMut)>::(index|index_mut)$',
         r'^<Vec as IndexMut>::index_mut$', r'^<Vec as std::ops::Index>::index$', r' as SliceIndex>::(index|index_mut|get|get_mut)$')
def m_vec_index(I, path, args):
    if 'SliceIndex' in path:
        idx, vv = args[0], args[1]
    else:
        vv, idx = args[0], args[1]
    v = _vec(vv)
    n = len(v.items)
    if isinstance(idx, Adt):
        r = _range_of(I, idx, n)
        a, b = r
        if a == 0 and b == n and isinstance(v, PyVec):
            return vv if isinstance(vv, Ref) else mkref(v)
        return _subslice(v, a, b)
    i = _concrete_index(I, idx, n)
    if not (0 <= i < n):
        raise Panic(f'index out of bounds: the len is {n} but the index is {i}')
    return _elem_ref(v, i)


@R.model(r'^std::slice::to_vec$', r'^<\[.*\] as ToOwned>::to_owned$', r'^<\[T\] as ToOwned>::to_owned$', r'^std::slice::hack::to_vec$')
def m_to_vec(I, path, args):
    return PyVec([clone_val(x) for x in _vec(args[0]).items])


@R.model(r'^(core|std)::slice::from_ref$')
def m_slice_from_ref(I, path, args):
    r = args[0]
    return PySlice(PyVec([deref1(r)]), 0, 1)


@R.model(r'^std::vec::from_elem$')
def m_from_elem(I, path, args):
    n = _concrete_index(I, args[1], 64)
    return PyVec([clone_val(args[0]) for _ in range(n)])


# ----------------------------------------------------------------------------- HashMap / HashSet / BTreeMap

def _map(a):
    m = deref1(a)
    if not isinstance(m, PyMap):
        raise Unsupported(f'expected map, got {m!r}')
    return m


def map_find(I, m, k):
    """index of the entry whose key equals k under the path condition, forking as needed; None if absent"""
    k = deref1(k) if isinstance(k, Ref) else k
    for i, ent in enumerate(m.items):
        if I.ctx.branch(val_eq(ent[0], k)):
            return i
    return None


class EntryV:
    """std::collections::hash_map::Entry"""

    def __init__(self, m, key, idx):
        self.m, self.key, self.idx = m, key, idx
        self.name = 'Entry'

    @property
    def variant(self):
        return 0 if self.idx is not None else 1

    def discriminant(self, I):
        return self.variant

    def field_lv(self, i):
        # (entry as Occupied).0 / (entry as Vacant).0 -> the entry itself
        return LV([self], 0)


@R.model(r'^(std::collections::)?(HashMap|HashSet|BTreeMap|BTreeSet)::(new|with_capacity|default)$')
def m_map_new(I, path, args):
    kind = 'set' if 'Set::' in strip_generics(path) else 'map'
    return PyMap([], kind)


@R.model(r'^(std::collections::)?(HashMap|BTreeMap)::(insert|remove|get|get_mut|contains_key|entry|len|is_empty|iter|iter_mut|'
         r'keys|values|values_mut|into_keys|into_values|drain|clear|retain|remove_entry|get_key_value|extend)$')
def m_map_method(I, path, args):
    meth = strip_generics(path).split('::')[-1]
    m = _map(args[0])
    if meth == 'insert':
        k, v = args[1], args[2]
        i = map_find(I, m, k)
        if i is not None:
            old = m.items[i][1]
            m.items[i][1] = v
            return Some(old)
        m.items.append([k, v])
        return NONE()
    if meth == 'remove':
        i = map_find(I, m, args[1])
        if i is None:
            return NONE()
        ent = m.items.pop(i)
        return Some(ent[1])
    if meth == 'remove_entry':
        i = map_find(I, m, args[1])
        if i is None:
            return NONE()
        ent = m.items.pop(i)
        return Some(Tuple(ent[0], ent[1]))
    if meth in ('get', 'get_mut'):
        i = map_find(I, m, args[1])
        if i is None:
            return NONE()
        return Some(Ref(LV(m.items[i], 1)))
    if meth == 'get_key_value':
        i = map_find(I, m, args[1])
        if i is None:
            return NONE()
        return Some(Tuple(Ref(LV(m.items[i], 0)), Ref(LV(m.items[i], 1))))
    if meth == 'contains_key':
        return map_find(I, m, args[1]) is not None
    if meth == 'entry':
        i = map_find(I, m, args[1])
        return EntryV(m, args[1], i)
    if meth == 'len':
        return len(m.items)
    if meth == 'is_empty':
        return len(m.items) == 0
    if meth in ('iter', 'iter_mut'):
        return ListIter([Tuple(Ref(LV(e, 0)), Ref(LV(e, 1))) for e in m.items])
    if meth == 'keys':
        return ListIter([Ref(LV(e, 0)) for e in m.items])
    if meth in ('values', 'values_mut'):
        return ListIter([Ref(LV(e, 1)) for e in m.items])
    if meth == 'into_keys':
        return ListIter([e[0] for e in m.items])
    if meth == 'into_values':
        return ListIter([e[1] for e in m.items])
    if meth == 'drain':
        items = m.items[:]
        m.items.clear()
        return DrainIter([Tuple(e[0], e[1]) for e in items])
    if meth == 'clear':
        m.items.clear()
        return UNIT()
    if meth == 'retain':
        keep = []
        for e in m.items:
            if I.ctx.branch(I.call_value(args[1], [Ref(LV(e, 0)), Ref(LV(e, 1))])):
                keep.append(e)
        m.items[:] = keep
        return UNIT()
    if meth == 'extend':
        from .iterators import to_iter, drain_all
        for kv in drain_all(I, to_iter(I, args[1])):
            k, v = kv.fields
            i = map_find(I, m, k)
            if i is not None:
                m.items[i][1] = v
            else:
                m.items.append([k, v])
        return UNIT()
    raise Unsupported('map method ' + meth)


@R.model(r'^<(std::collections::)?(HashMap|BTreeMap) as (std::ops::)?Index>::index$')
def m_map_index(I, path, args):
    m = _map(args[0])
    i = map_find(I, m, args[1])
    if i is None:
        raise Panic('no entry found for key (HashMap index)')
    return Ref(LV(m.items[i], 1))


@R.model(r'^(std::collections::)?(HashSet|BTreeSet)::(insert|remove|contains|len|is_empty|iter|drain|clear|get|take|extend|is_subset|difference|union|intersection)$')
def m_set_method(I, path, args):
    meth = strip_generics(path).split('::')[-1]
    m = _map(args[0])
    if meth == 'insert':
        i = map_find(I, m, args[1])
        if i is not None:
            return False
        m.items.append([args[1], UNIT()])
        return True
    if meth == 'remove':
        i = map_find(I, m, args[1])
        if i is None:
            return False
        m.items.pop(i)
        return True
    if meth == 'contains':
        return map_find(I, m, args[1]) is not None
    if meth == 'len':
        return len(m.items)
    if meth == 'is_empty':
        return len(m.items) == 0
    if meth == 'iter':
        return ListIter([Ref(LV(e, 0)) for e in m.items])
    if meth == 'drain':
        items = m.items[:]
        m.items.clear()
        return DrainIter([e[0] for e in items])
    if meth == 'clear':
        m.items.clear()
        return UNIT()
    if meth == 'extend':
        from .iterators import to_iter, drain_all
        for k in drain_all(I, to_iter(I, args[1])):
            if map_find(I, m, k) is None:
                m.items.append([k, UNIT()])
        return UNIT()
    raise Unsupported('set method ' + meth)


@R.model(r'^std::collections::hash_map::Entry::(or_insert_with|or_insert|or_default|and_modify|key|or_insert_with_key)$',
         r'^std::collections::hash_map::(OccupiedEntry|VacantEntry)::(get|get_mut|into_mut|insert|remove|key|remove_entry|insert_entry)$')
def m_entry(I, path, args):
    meth = strip_generics(path).split('::')[-1]
    e = deref1(args[0])
    if not isinstance(e, EntryV):
        raise Unsupported('entry method on ' + repr(e))
    m = e.m
    if 'Entry::' in path and 'OccupiedEntry' not in path and 'VacantEntry' not in path:
        if meth in ('or_insert_with', 'or_insert', 'or_default', 'or_insert_with_key'):
            if e.idx is None:
                if meth == 'or_insert':
                    v = args[1]
                elif meth == 'or_insert_with':
                    v = I.call_value(args[1], [])
                elif meth == 'or_insert_with_key':
                    v = I.call_value(args[1], [mkref(e.key)])
                else:
                    raise Unsupported('Entry::or_default')
                m.items.append([e.key, v])
                e.idx = len(m.items) - 1
            return Ref(LV(m.items[e.idx], 1))
        if meth == 'and_modify':
            if e.idx is not None:
                I.call_value(args[1], [Ref(LV(m.items[e.idx], 1))])
            return e
        if meth == 'key':
            return mkref(e.key)
    if 'OccupiedEntry' in path:
        ent = m.items[e.idx]
        if meth in ('get', 'get_mut', 'into_mut'):
            return Ref(LV(ent, 1))
        if meth == 'insert':
            old = ent[1]
            ent[1] = args[1]
            return old
        if meth == 'remove':
            m.items.pop(e.idx)
            return ent[1]
        if meth == 'remove_entry':
            m.items.pop(e.idx)
            return Tuple(ent[0], ent[1])
        if meth == 'key':
            return Ref(LV(ent, 0))
    if 'VacantEntry' in path:
        if meth == 'insert':
            m.items.append([e.key, args[1]])
            e.idx = len(m.items) - 1
            return Ref(LV(m.items[e.idx], 1))
        if meth == 'key':
            return mkref(e.key)
    raise Unsupported('entry method ' + path)
