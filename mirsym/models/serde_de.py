"""serde's Deserializer protocol, so that the crate's derive-generated `Deserialize` impls (the `__Visitor::visit_map`,
`visit_enum`, `__FieldVisitor::visit_str` bodies in the MIR) are *executed* on an abstract JSON document instead of being
replaced by a decoder written in the harness.

Abstract documents are the ones of the model serializer (extern.py): ('obj', [(key, doc)...]) ('arr', [...]) ('str', s)
('null',) ('uuid', term) ('rfc3339', DateTime) ('num', n) ('bool', b).

What is executed: `T::deserialize` of crate types, the visitors' `visit_map` / `visit_seq` / `visit_enum` and the field /
variant identifier visitors' `visit_str`.  What is modelled: serde_json's parser (the document arrives already parsed),
the std/uuid/chrono `Deserialize` impls of leaf types (String, Option, Vec, Uuid, DateTime<Utc>: a JSON string holding a
uuid / an RFC 3339 instant deserializes to that uuid / instant), `IgnoredAny`, and the one-line generated forwarding
`__Field::deserialize -> deserialize_identifier -> visit_str`.

Equally named nested bodies of one derive expansion (the per-variant visitors of an enum) are told apart by their position
in the dump: the identifier visitor of a `visit_map` is the nearest preceding `visit_str` of the same nesting level, and
the struct-variant visitors appear in variant declaration order (checked: the value built must be that variant)."""
import re

from ..parser import Unsupported, strip_generics
from ..values import Adt, PyVec, SegStr, TokStr, Opaque, Some, NONE, Ok, Err, UNIT, clone_val, deref, mkref, is_sym
from .core import generic_args
from . import REGISTRY as R


class DeError:
    rust_type = 'serde_json::Error'

    def __init__(self, msg):
        self.msg = msg

    def display_model(self, I):
        return 'serde error: ' + self.msg

    def __repr__(self):
        return f'serde_json::Error({self.msg})'


def _err(msg):
    return Err(DeError(msg))


def _caller(I):
    if not I.fstack:
        raise Unsupported('model deserializer called outside a crate function')
    return I.fstack[-1]


def _overloads(I, name):
    lst = I.crate.index.get(name)
    if not lst:
        return []
    return sorted((I.crate.func(name, w) for w in range(len(lst))), key=lambda f: f.start)


def _nested(I, caller, meth):
    """bodies named `<caller>::<impl at ..>::<meth>` (visitor impls declared inside the calling function)"""
    pre = caller.name + '::<impl at '
    names = [n for n in I.by_last.get(meth, []) if n.startswith(pre) and n.count('::<impl at ') == caller.name.count('::<impl at ') + 1]
    out = []
    for n in sorted(set(names)):
        out.extend(_overloads(I, n))
    return sorted(out, key=lambda f: f.start)


def _sibling_before(I, caller, meth):
    """the body named like the caller with its last segment replaced by `meth` that precedes the caller most closely"""
    name = caller.name.rsplit('::', 1)[0] + '::' + meth
    cands = [f for f in _overloads(I, name) if f.start < caller.start]
    if not cands:
        raise Unsupported(f'no {meth} before {caller.name}')
    return cands[-1]


def _run(I, f, args):
    I.encoded.add(f.name)
    return I.exec_body(f, args)


VISITOR = Adt('__Visitor', 0, [])


# ----------------------------------------------------------------------------- leaf types

def de_value(I, ty, doc):
    """deserialize `doc` as the Rust type `ty` (textual, from the turbofish of next_value / next_element)"""
    t = strip_generics(ty).strip()
    last = t.split('::')[-1]
    if last == 'IgnoredAny':
        return Ok(Adt('IgnoredAny', 0, []))
    if last == 'Option':
        if doc[0] == 'null':
            return Ok(NONE())
        inner = _inner(ty)
        r = de_value(I, inner, doc)
        return Ok(Some(r.fields[0])) if r.variant == 0 else r
    if last == 'Vec':
        if doc[0] != 'arr':
            return _err('invalid type: expected a sequence')
        inner = _inner(ty)
        out = []
        for d in doc[1]:
            r = de_value(I, inner, d)
            if r.variant != 0:
                return r
            out.append(r.fields[0])
        return Ok(PyVec(out))
    if last == 'Uuid':
        if doc[0] == 'uuid':
            return Ok(doc[1])
        if doc[0] == 'str':
            from .strings import uuid_parse
            r = uuid_parse(I, doc[1])
            return Ok(r.fields[0]) if r.variant == 0 else _err('invalid uuid')
        return _err('invalid type: expected a uuid string')
    if last in ('String', 'str'):
        if doc[0] == 'str':
            return Ok(doc[1])
        if doc[0] == 'uuid':
            return Ok(SegStr([('uuidh', doc[1])]) if is_sym(doc[1]) else _dashed(doc[1]))
        if doc[0] == 'rfc3339':
            raise Unsupported('an RFC 3339 document read as a plain String (custom timestamp parsing is not modelled)')
        return _err('invalid type: expected a string')
    if last == 'DateTime':
        if doc[0] == 'rfc3339':
            return Ok(clone_val(doc[1]))
        if doc[0] in ('str', 'uuid'):
            if doc[0] == 'str' and isinstance(doc[1], str):
                raise Unsupported('RFC 3339 parsing of a concrete string')
            return _err('invalid RFC 3339 timestamp')
        return _err('invalid type: expected an RFC 3339 string')
    if last in ('bool',):
        return Ok(doc[1]) if doc[0] == 'bool' else _err('invalid type: expected a boolean')
    if last in ('u8', 'u16', 'u32', 'u64', 'usize', 'i8', 'i16', 'i32', 'i64', 'isize'):
        return Ok(doc[1]) if doc[0] == 'num' else _err('invalid type: expected a number')
    pre = I.impl_for('Deserialize', last, ty)
    if pre and (pre + '::deserialize') in I.crate.index:
        I.encoded.add(pre + '::deserialize')
        return I.run(pre + '::deserialize', [ModelDeserializer(doc)])
    # a type local to a derive expansion: the `__DeserializeWith` wrapper serde-derive generates for `deserialize_with`;
    # its Deserialize impl is declared inside the visitor body that is being executed
    if last == '__DeserializeWith' and I.fstack:
        fs = _nested(I, I.fstack[-1], 'deserialize')
        if len(fs) == 1:
            return _run(I, fs[0], [ModelDeserializer(doc)])
    raise Unsupported('Deserialize of ' + ty)


def _inner(ty):
    i = ty.index('<')
    ga = generic_args('x' + ty[i:])
    return ga[0][0] if ga and ga[0] else ''


def _dashed(n):
    h = '%032x' % n
    return f'{h[:8]}-{h[8:12]}-{h[12:16]}-{h[16:20]}-{h[20:]}'


# ----------------------------------------------------------------------------- Deserializer / MapAccess / SeqAccess / EnumAccess / VariantAccess

class ModelDeserializer:
    rust_type = 'ModelDeserializer'

    def __init__(self, doc):
        self.doc = doc

    def rust_call(self, trait, meth):
        fn = getattr(self, 'de_' + meth, None)
        if fn is None:
            raise Unsupported(f'model deserializer: {trait}::{meth}')
        return lambda I, path, args: fn(I, path, args)

    def de_deserialize_struct(self, I, path, args):
        caller = _caller(I)
        visitor = args[3]
        if self.doc[0] == 'obj':
            fs = _nested(I, caller, 'visit_map')
            if len(fs) != 1:
                raise Unsupported(f'visit_map of {caller.name}: {len(fs)} bodies')
            return _run(I, fs[0], [visitor, MapAccess(self.doc[1], fs[0])])
        if self.doc[0] == 'arr':
            fs = _nested(I, caller, 'visit_seq')
            if len(fs) != 1:
                raise Unsupported(f'visit_seq of {caller.name}: {len(fs)} bodies')
            return _run(I, fs[0], [visitor, SeqAccess(self.doc[1])])
        return _err('invalid type: expected a struct')

    def de_deserialize_enum(self, I, path, args):
        caller = _caller(I)
        visitor = args[3]
        fs = _nested(I, caller, 'visit_enum')
        if len(fs) != 1:
            raise Unsupported(f'visit_enum of {caller.name}: {len(fs)} bodies')
        if self.doc[0] == 'str':
            return _run(I, fs[0], [visitor, EnumAccess(self.doc[1], None)])
        if self.doc[0] == 'obj':
            if len(self.doc[1]) != 1:
                return _err('expected an object with a single key naming the variant')
            key, val = self.doc[1][0]
            return _run(I, fs[0], [visitor, EnumAccess(key, val)])
        return _err('invalid type: expected an externally tagged enum')


class MapAccess:
    rust_type = 'MapAccess'

    def __init__(self, entries, visit_map_fn):
        self.entries, self.pos, self.owner = list(entries), 0, visit_map_fn

    def rust_call(self, trait, meth):
        fn = getattr(self, 'ma_' + meth, None)
        if fn is None:
            raise Unsupported(f'model MapAccess: {meth}')
        return lambda I, path, args: fn(I, path, args)

    def ma_next_key(self, I, path, args):
        if self.pos >= len(self.entries):
            return Ok(NONE())
        key = self.entries[self.pos][0]
        if isinstance(key, tuple):
            raise Unsupported('non-string object key in an inbound document')
        f = _sibling_before(I, _caller(I), 'visit_str')
        r = _run(I, f, [Adt('__FieldVisitor', 0, []), key])
        if r.variant != 0:
            return r
        return Ok(Some(r.fields[0]))

    def ma_next_value(self, I, path, args):
        ga = generic_args(path)
        ty = ga[-1][0] if ga and ga[-1] else ''
        if self.pos >= len(self.entries):
            raise Unsupported('next_value without a pending key')
        doc = self.entries[self.pos][1]
        self.pos += 1
        return de_value(I, ty, doc)


class SeqAccess:
    rust_type = 'SeqAccess'

    def __init__(self, items):
        self.items, self.pos = list(items), 0

    def rust_call(self, trait, meth):
        if meth != 'next_element':
            raise Unsupported(f'model SeqAccess: {meth}')
        return lambda I, path, args: self.next_element(I, path, args)

    def next_element(self, I, path, args):
        if self.pos >= len(self.items):
            return Ok(NONE())
        ga = generic_args(path)
        ty = ga[-1][0] if ga and ga[-1] else ''
        d = self.items[self.pos]
        self.pos += 1
        r = de_value(I, ty, d)
        return Ok(Some(r.fields[0])) if r.variant == 0 else r


class EnumAccess:
    rust_type = 'EnumAccess'

    def __init__(self, key, val):
        self.key, self.val = key, val

    def rust_call(self, trait, meth):
        if meth not in ('variant', 'variant_seed'):
            raise Unsupported(f'model EnumAccess: {meth}')
        return lambda I, path, args: self.variant(I, path, args)

    def variant(self, I, path, args):
        if isinstance(self.key, tuple) or not isinstance(self.key, str):
            raise Unsupported('non-literal variant name in an inbound document')
        caller = _caller(I)                       # ...::visit_enum
        name = caller.name.rsplit('::', 1)[0] + '::visit_str'
        fs = [f for f in _overloads(I, name)]
        if len(fs) != 1:
            raise Unsupported(f'variant identifier visitor of {caller.name}: {len(fs)} bodies')
        r = _run(I, fs[0], [Adt('__FieldVisitor', 0, []), self.key])
        if r.variant != 0:
            return r
        field = r.fields[0]
        return Ok(Adt('tuple', 0, [field, VariantAccess(self.val, field.variant)]))


class VariantAccess:
    rust_type = 'VariantAccess'

    def __init__(self, val, index):
        self.val, self.index = val, index

    def rust_call(self, trait, meth):
        fn = getattr(self, 'va_' + meth, None)
        if fn is None:
            raise Unsupported(f'model VariantAccess: {meth}')
        return lambda I, path, args: fn(I, path, args)

    def va_struct_variant(self, I, path, args):
        caller = _caller(I)                       # ...::visit_enum
        visitor = args[2]
        if self.val is None:
            return _err('invalid type: unit variant, expected struct variant')
        meth = 'visit_map' if self.val[0] == 'obj' else 'visit_seq' if self.val[0] == 'arr' else None
        if meth is None:
            return _err('invalid type: expected struct variant')
        fs = _nested(I, caller, meth)
        # struct variants only are counted: their visitors appear in declaration order
        if self.index >= len(fs):
            raise Unsupported(f'struct-variant visitor #{self.index} of {caller.name}: {len(fs)} bodies')
        f = fs[self.index]
        acc = MapAccess(self.val[1], f) if meth == 'visit_map' else SeqAccess(self.val[1])
        r = _run(I, f, [visitor, acc])
        if r.variant == 0 and isinstance(r.fields[0], Adt) and r.fields[0].variant != self.index:
            raise Unsupported('derive layout assumption violated: struct-variant visitors are not in declaration order')
        return r

    def va_unit_variant(self, I, path, args):
        if self.val is not None and self.val[0] != 'null':
            return _err('invalid type: expected unit variant')
        return Ok(UNIT())

    def va_newtype_variant(self, I, path, args):
        ga = generic_args(path)
        ty = ga[-1][0] if ga and ga[-1] else ''
        if self.val is None:
            return _err('invalid type: unit variant, expected newtype variant')
        return de_value(I, ty, self.val)


# ----------------------------------------------------------------------------- error constructors and helpers of serde

@R.model(r' as (\w+::)*de::Error>::(custom|invalid_type|invalid_value|invalid_length|unknown_variant|unknown_field|missing_field|duplicate_field)$',
         r' as (\w+::)*Error>::(invalid_length|unknown_variant|unknown_field|missing_field|duplicate_field)$')
def m_de_error(I, path, args):
    return DeError(path.split('::')[-1] + ' ' + ' '.join(repr(deref(a))[:40] for a in args[:2]))


@R.model(r'(^|::)__private\d*::de::missing_field$', r'(^|::)de::missing_field$')
def m_missing_field(I, path, args):
    """serde::__private::de::missing_field::<V, E>: an absent field is `None` for Option<_>, an error for everything else"""
    ga = generic_args(path)
    tys = [g for g in (ga[-1] if ga else []) if not g.strip().startswith("'")]
    ty = strip_generics(tys[0]).strip() if tys else ''
    if ty.split('::')[-1] == 'Option':
        return Ok(NONE())
    return _err('missing field ' + repr(deref(args[0])))


def deserialize_document(I, js, ty):
    """entry point used as the `json_decode` hook: run the crate's own Deserialize impl for `ty` on the document"""
    return de_value(I, ty, js.doc)


# ----------------------------------------------------------------------------- RFC 3339 text forms (custom timestamp deserializers)

class Rfc3339Str:
    """the text of an RFC 3339 timestamp: an instant (DateTime Adt: secs, nanos) plus the form it is written in —
    number of fractional digits (0, 3, 6, 9; None = as many as needed, trimmed) and the UTC designator ('Z' or '+00:00').
    Two texts are equal iff instant and form are equal.  Only what code that re-renders and compares needs."""
    rust_type = 'String'

    def __init__(self, dt, digits, zone):
        self.dt, self.digits, self.zone = dt, digits, zone

    def eq_model(self, other):
        from .core import val_eq, z_and
        other = deref(other)
        if not isinstance(other, Rfc3339Str):
            if isinstance(other, str):
                raise Unsupported('comparison of an RFC 3339 text with a concrete string')
            return False
        if self.digits != other.digits or self.zone != other.zone:
            return False
        return z_and(val_eq(self.dt.fields[0], other.dt.fields[0]), val_eq(self.dt.fields[1], other.dt.fields[1]))

    def display_model(self, I):
        return 'rfc3339-text'

    def __repr__(self):
        return f'Rfc3339Str({self.dt!r}, digits={self.digits}, {self.zone})'


def rfc3339_form(doc):
    """(digits, zone) a document's timestamp text is written in; this implementation's own form by default"""
    form = doc[2] if len(doc) > 2 and doc[2] else 'auto-Z'
    return {'auto-Z': (0, 'Z'), 'millis-Z': (3, 'Z'), 'micros-Z': (6, 'Z'), 'nanos-Z': (9, 'Z'), 'offset': (0, '+00:00')}[form]


def _autosi_digits(I, nanos):
    """SecondsFormat::AutoSi: 0, 3, 6 or 9 digits, the fewest that render the nanoseconds exactly"""
    if isinstance(nanos, int):
        return 0 if nanos == 0 else 3 if nanos % 1_000_000 == 0 else 6 if nanos % 1000 == 0 else 9
    if I.ctx.branch(nanos == 0):
        return 0
    if I.ctx.branch(nanos % 1_000_000 == 0):
        return 3
    if I.ctx.branch(nanos % 1000 == 0):
        return 6
    return 9


@R.model(r'^<(std::string::)?String as (\w+::)*Deserialize>::deserialize$', r'^<&str as (\w+::)*Deserialize>::deserialize$')
def m_string_deserialize(I, path, args):
    d = deref(args[0])
    if not isinstance(d, ModelDeserializer):
        raise Unsupported('String::deserialize from ' + repr(d)[:60])
    if d.doc[0] == 'rfc3339':
        dg, zone = rfc3339_form(d.doc)
        return Ok(Rfc3339Str(d.doc[1], dg, zone))
    return de_value(I, 'String', d.doc)


@R.model(r'^DateTime::parse_from_rfc3339$', r'^chrono::DateTime::parse_from_rfc3339$', r'^<DateTime as (std::str::)?FromStr>::from_str$')
def m_parse_from_rfc3339(I, path, args):
    s = deref(args[0])
    if isinstance(s, Rfc3339Str):
        return Ok(clone_val(s.dt))
    if isinstance(s, (str, SegStr, TokStr)):
        if isinstance(s, str):
            raise Unsupported('RFC 3339 parsing of a concrete string')
        return Err(Opaque('chrono::ParseError'))
    raise Unsupported('parse_from_rfc3339 of ' + repr(s)[:60])


@R.model(r'^DateTime::with_timezone$', r'^chrono::DateTime::with_timezone$', r'^DateTime::to_utc$')
def m_with_timezone(I, path, args):
    return clone_val(deref(args[0]))


@R.model(r'^DateTime::to_rfc3339_opts$', r'^chrono::DateTime::to_rfc3339_opts$', r'^DateTime::to_rfc3339$')
def m_to_rfc3339(I, path, args):
    dt = deref(args[0])
    if path.split('::')[-1].startswith('to_rfc3339_opts'):
        fmt, use_z = deref(args[1]), deref(args[2])
        name = fmt.name if isinstance(fmt, Adt) and fmt.name in ('Secs', 'Millis', 'Micros', 'Nanos', 'AutoSi') else \
            (['Secs', 'Millis', 'Micros', 'Nanos', 'AutoSi'][fmt.variant] if isinstance(fmt, Adt) and fmt.variant < 5 else str(getattr(fmt, 'path', fmt)).split('::')[-1])
        digits = {'Secs': 0, 'Millis': 3, 'Micros': 6, 'Nanos': 9}.get(name)
        if digits is None:
            if name != 'AutoSi':
                raise Unsupported('SecondsFormat ' + repr(fmt))
            digits = _autosi_digits(I, dt.fields[1])
        if not isinstance(use_z, bool):
            raise Unsupported('symbolic use_z')
        return Rfc3339Str(clone_val(dt), digits, 'Z' if use_z else '+00:00')
    return Rfc3339Str(clone_val(dt), _autosi_digits(I, dt.fields[1]), '+00:00')
