"""`reqwest` and `url` at their call boundary, for the HTTP client backend (src/server/sync/mod.rs).

What is executed is the crate's own request construction and response interpretation; what is modelled:

* `Url`: parse / path / set_path / join on strings (the harness uses a plain `http://host/path` base; the endpoint part
  may contain a symbolic uuid);
* `Client` / `RequestBuilder`: a record of method, url, headers (in order) and body; `send()` hands the record to the
  harness's HTTP server (`http_server` hook), which answers with a `Response` (status, headers, body) or a transport error;
* `Response`: `status`, `headers().get(name)` (header names are case-insensitive), `HeaderValue::to_str`,
  `error_for_status` (4xx/5xx become an error carrying the status), `bytes()`;
* `reqwest::Error`: `status()`, `url()`, Display.
Transfer encodings, TLS, redirects, timeouts and connection handling are outside.
"""
import re

from ..parser import Unsupported
from ..values import Adt, Ref, LV, PyVec, PySlice, Bytes, SegStr, Opaque, Some, NONE, Ok, Err, UNIT, clone_val, deref, deref1, mkref
from .core import PendingOnce, Ready
from . import REGISTRY as R

STATUS = {'OK': 200, 'CONFLICT': 409, 'NOT_FOUND': 404, 'GONE': 410, 'BAD_REQUEST': 400, 'INTERNAL_SERVER_ERROR': 500,
          'UNAUTHORIZED': 401, 'FORBIDDEN': 403, 'CREATED': 201, 'NO_CONTENT': 204, 'PRECONDITION_FAILED': 412,
          'SERVICE_UNAVAILABLE': 503, 'BAD_GATEWAY': 502}


class Url:
    rust_type = 'Url'

    def __init__(self, base, rel=None):
        self.base, self.rel = base, rel      # base: concrete str 'scheme://host/path'; rel: None | str | SegStr

    def text(self):
        if self.rel is None:
            return self.base
        if isinstance(self.rel, str):
            return self.base + self.rel
        return SegStr([self.base] + list(self.rel.segs))

    def display_model(self, I):
        return self.text()

    def __repr__(self):
        return f'Url({self.text()!r})'


class Request:
    rust_type = 'RequestBuilder'

    def __init__(self, method, url):
        self.method, self.url, self.headers, self.body = method, url, [], None


class Response:
    rust_type = 'Response'

    def __init__(self, status, headers=(), body=None, url=None):
        self.status, self.headers, self.body, self.url = status, list(headers), body if body is not None else PyVec([]), url


class ReqwestError:
    rust_type = 'reqwest::Error'

    def __init__(self, status=None, url=None, msg='transport error'):
        self.status, self.url, self.msg = status, url, msg

    def display_model(self, I):
        return 'reqwest error: ' + self.msg

    def __repr__(self):
        return f'reqwest::Error(status={self.status}, {self.msg})'


class HeaderValue:
    rust_type = 'HeaderValue'

    def __init__(self, v):
        self.v = v


class HeaderMap:
    rust_type = 'HeaderMap'

    def __init__(self, headers):
        self.headers = headers


def _split_url(s):
    m = re.fullmatch(r'([a-zA-Z][a-zA-Z0-9+.-]*)://([^/?#]*)([^?#]*)', s)
    if not m:
        return None
    return m.group(1), m.group(2), m.group(3) or '/'


@R.model(r'^Url::parse$', r'^url::Url::parse$')
def m_url_parse(I, path, args):
    s = deref(args[0])
    if not isinstance(s, str):
        raise Unsupported('Url::parse of ' + repr(s))
    p = _split_url(s)
    if p is None:
        return Err(Opaque('url::ParseError'))
    scheme, host, pth = p
    return Ok(Url(f'{scheme}://{host}{pth}'))


@R.model(r'^Url::path$', r'^url::Url::path$')
def m_url_path(I, path, args):
    u = deref(args[0])
    if u.rel is not None:
        raise Unsupported('Url::path of a joined url')
    return _split_url(u.base)[2]


@R.model(r'^Url::set_path$', r'^url::Url::set_path$')
def m_url_set_path(I, path, args):
    u, p = deref(args[0]), deref(args[1])
    if not isinstance(p, str) or u.rel is not None:
        raise Unsupported('Url::set_path ' + repr(p))
    scheme, host, _ = _split_url(u.base)
    u.base = f'{scheme}://{host}{p if p.startswith("/") else "/" + p}'
    return UNIT()


@R.model(r'^Url::join$', r'^url::Url::join$')
def m_url_join(I, path, args):
    u, rel = deref(args[0]), deref(args[1])
    if u.rel is not None:
        raise Unsupported('Url::join on a joined url')
    first = rel if isinstance(rel, str) else (rel.segs[0] if isinstance(rel, SegStr) and rel.segs and isinstance(rel.segs[0], str) else None)
    if first is None or first.startswith('/') or '://' in first or first.startswith('.'):
        raise Unsupported('Url::join with ' + repr(rel))
    scheme, host, pth = _split_url(u.base)
    # RFC 3986 reference resolution for a relative-path reference: everything after the last '/' of the base path is dropped
    basepath = pth[:pth.rfind('/') + 1]
    return Ok(Url(f'{scheme}://{host}{basepath}', rel))


@R.model(r'^Url::as_str$', r'^url::Url::as_str$', r'^<Url as Display>::fmt$')
def m_url_as_str(I, path, args):
    return deref(args[0]).text()


@R.model(r'^(http::)?client$')
def m_http_client(I, path, args):
    """crate::server::http::client(): builds the reqwest client (TLS roots, user agent); transport set-up is outside"""
    return Ok(Opaque('reqwest::Client'))


@R.model(r'^Client::(post|get|put|delete)$', r'^reqwest::Client::(post|get|put|delete)$')
def m_client_method(I, path, args):
    meth = re.search(r'::(post|get|put|delete)', path).group(1).upper()
    return Request(meth, deref(args[1]))


@R.model(r'^RequestBuilder::header$')
def m_rb_header(I, path, args):
    rb = args[0]
    rb.headers.append((deref(args[1]), deref(args[2])))
    return rb


@R.model(r'^RequestBuilder::body$')
def m_rb_body(I, path, args):
    rb = args[0]
    rb.body = deref(args[1])
    return rb


@R.model(r'^RequestBuilder::send$')
def m_rb_send(I, path, args):
    rb = args[0]

    def serve(I2):
        srv = I2.env.get('http_server')
        if srv is None:
            raise Unsupported('RequestBuilder::send without an http_server hook')
        return srv(I2, rb)
    return PendingOnce(serve, 'http:' + rb.method)


@R.model(r'^Response::status$')
def m_resp_status(I, path, args):
    return deref(args[0]).status


@R.model(r'^<StatusCode as PartialEq>::(eq|ne)$')
def m_status_eq(I, path, args):
    a, b = deref(args[0]), deref(args[1])
    r = (a == b)
    return (not r) if path.endswith('ne') else r


@R.const_model(r'(^|::)StatusCode::[A-Z_]+$')
def c_status(I, name):
    n = name.split('::')[-1]
    if n not in STATUS:
        raise Unsupported('StatusCode::' + n)
    return STATUS[n]


@R.model(r'^StatusCode::as_u16$')
def m_status_u16(I, path, args):
    return deref(args[0])


@R.model(r'^StatusCode::canonical_reason$')
def m_status_reason(I, path, args):
    return Some('status')


@R.model(r'^Response::error_for_status$', r'^reqwest::Response::error_for_status$')
def m_error_for_status(I, path, args):
    r = deref(args[0])
    if 400 <= r.status <= 599:
        return Err(ReqwestError(r.status, r.url, f'HTTP status {r.status}'))
    return Ok(r)


@R.model(r'^reqwest::Error::status$', r'^reqwest::error::Error::status$')
def m_err_status(I, path, args):
    e = deref(args[0])
    return Some(e.status) if e.status is not None else NONE()


@R.model(r'^reqwest::Error::url$', r'^reqwest::error::Error::url$')
def m_err_url(I, path, args):
    e = deref(args[0])
    return Some(mkref(e.url)) if e.url is not None else NONE()


@R.model(r'^Response::headers$')
def m_resp_headers(I, path, args):
    return mkref(HeaderMap(deref(args[0]).headers))


@R.model(r'^HeaderMap::get$')
def m_headers_get(I, path, args):
    hm, name = deref(args[0]), deref(args[1])
    if not isinstance(name, str):
        raise Unsupported('HeaderMap::get with ' + repr(name))
    for k, v in hm.headers:
        if k.lower() == name.lower():
            return Some(mkref(HeaderValue(v)))
    return NONE()


@R.model(r'^HeaderValue::to_str$')
def m_header_to_str(I, path, args):
    v = deref(args[0]).v
    if isinstance(v, (PyVec, Bytes)):
        return Err(Opaque('ToStrError'))
    return Ok(v)


class BodyBytes:
    """bytes::Bytes holding a response body"""
    rust_type = 'Bytes'

    def __init__(self, body):
        self.body = body

    def deref_model(self, I):
        return mkref(self.body)


@R.model(r'^Response::bytes$')
def m_resp_bytes(I, path, args):
    r = deref(args[0])
    return Ready(Ok(BodyBytes(r.body)))


@R.model(r'^(bytes::bytes::|bytes::)?Bytes::(len|is_empty|to_vec|slice|first|last)$')
def m_bytes_method(I, path, args):
    b = deref(args[0])
    meth = path.split('::')[-1].split('<')[0]
    body = deref(b.body)
    from .extern import bytes_len
    if meth == 'len':
        return bytes_len(I, body)
    if meth == 'is_empty':
        n = bytes_len(I, body)
        return n == 0
    if meth == 'to_vec':
        return clone_val(body)
    raise Unsupported('Bytes::' + meth)
