"""Path exploration: re-execution DFS over decision prefixes, z3 deciding every symbolic branch.

A *path* is one run of the harness.  Every branch on a symbolic condition asks the solver which
sides are feasible under the path condition; the side not taken is queued as a decision prefix.
Prefixes are distributed over worker processes (work is handed back when a worker's budget runs out).
"""
import multiprocessing as mp
import os
import time
import traceback

import z3

from .parser import Unsupported


class PathAbort(Exception):
    """infeasible assumption / path pruned by the harness"""


class Panic(Exception):
    """the interpreted Rust code panicked"""

    def __init__(self, msg, where=''):
        super().__init__(msg)
        self.msg, self.where = msg, where


class StepLimit(Exception):
    pass


class Ctx:
    """state of one path"""

    def __init__(self, solver, prefix, stats, opts):
        self.solver = solver
        self.prefix = prefix
        self.pos = 0
        self.decisions = []
        self.alternatives = []
        self.pc = []
        self.model = None
        self.stats = stats
        self.opts = opts
        self.counters = {}
        self.violations = []
        self.prefer = []
        self.covers = set()
        self.notes = {}
        self.sym_inputs = []      # (name, term) registered by the harness for witnesses
        self.transitions = 0
        self.want_sample = False

    # -- naming
    def fresh_name(self, base):
        n = self.counters.get(base, 0)
        self.counters[base] = n + 1
        return f"{base}!{n}"

    def fresh_int(self, base, lo=None, hi=None):
        t = z3.Int(self.fresh_name(base))
        if lo is not None:
            self._add(t >= lo)
        if hi is not None:
            self._add(t <= hi)
        return t

    def fresh_bool(self, base):
        return z3.Bool(self.fresh_name(base))

    # -- solver plumbing
    def _check(self, *assumptions):
        st = self.stats
        st['queries'] += 1
        t = time.time()
        r = self.solver.check(*assumptions)
        st['solver_s'] += time.time() - t
        if r == z3.unknown:
            st['unknown'] += 1
            raise Unsupported('solver returned unknown: ' + self.solver.reason_unknown())
        return r == z3.sat

    def _add(self, cond):
        self.solver.add(cond)
        self.pc.append(cond)
        if self.model is not None:
            try:
                if not z3.is_true(self.model.eval(cond, model_completion=True)):
                    self.model = None
            except z3.Z3Exception:
                self.model = None

    def _eval_in_model(self, cond):
        if self.model is None:
            return None
        try:
            v = self.model.eval(cond, model_completion=True)
        except z3.Z3Exception:
            return None
        if z3.is_true(v):
            return True
        if z3.is_false(v):
            return False
        return None

    def feasible(self, cond):
        """is pc ∧ cond satisfiable?"""
        if cond is True:
            return True
        if cond is False:
            return False
        if self._eval_in_model(cond) is True:
            return True
        ok = self._check(cond)
        if ok and self.model is None:
            self.model = self.solver.model()
        return ok

    def assume(self, cond):
        if cond is True:
            return
        if isinstance(cond, bool) and not cond:
            raise PathAbort()
        cond = z3.simplify(cond)
        if z3.is_true(cond):
            return
        if z3.is_false(cond):
            raise PathAbort()
        if self.pos < len(self.prefix):
            # replaying: assumption was feasible when the prefix was generated
            self._add(cond)
            return
        if not self.feasible(cond):
            raise PathAbort()
        self._add(cond)

    def branch(self, cond):
        """decide a (possibly symbolic) boolean; forks when both sides are feasible"""
        if isinstance(cond, bool):
            return cond
        cond = z3.simplify(cond)
        if z3.is_true(cond):
            return True
        if z3.is_false(cond):
            return False
        self.transitions += 1
        if self.pos < len(self.prefix):
            d = self.prefix[self.pos]
            if not isinstance(d, bool):
                raise RuntimeError('nondeterministic replay (expected bool decision)')
        else:
            mv = self._eval_in_model(cond)
            if mv is True:
                can_t = True
                can_f = self._check(z3.Not(cond))
            elif mv is False:
                can_f = True
                can_t = self._check(cond)
                if can_t:
                    self.model = self.solver.model()
            else:
                can_t = self._check(cond)
                if can_t:
                    self.model = self.solver.model()
                    can_f = self._check(z3.Not(cond))
                else:
                    can_f = True   # pc is satisfiable by construction
            if can_t and can_f:
                self.alternatives.append(self.decisions + [False])
                d = True
            elif can_t:
                d = True
            elif can_f:
                d = False
            else:
                raise PathAbort()
        self.pos += 1
        self.decisions.append(d)
        self._add(cond if d else z3.Not(cond))
        return d

    def choose(self, n, label=''):
        """explicit nondeterministic choice among n alternatives (scheduler, shape of inputs)"""
        if n <= 0:
            raise PathAbort()
        if n == 1:
            return 0
        self.transitions += 1
        if self.pos < len(self.prefix):
            d = self.prefix[self.pos]
            if isinstance(d, bool) or not (0 <= d < n):
                raise RuntimeError('nondeterministic replay (expected choice decision)')
        else:
            d = 0
            for k in range(n - 1, 0, -1):
                self.alternatives.append(self.decisions + [k])
        self.pos += 1
        self.decisions.append(d)
        return d

    def concretize(self, term, candidates):
        """pick a concrete value for an integer term among candidates (forks)"""
        if isinstance(term, int):
            return term
        t = z3.simplify(term)
        if z3.is_int_value(t):
            return t.as_long()
        cands = list(candidates)
        for c in cands[:-1]:
            if self.branch(term == c):
                return c
        self.assume(term == cands[-1])
        return cands[-1]

    # -- property checking
    def get_model(self, *extra):
        # `prefer`: soft constraints of the harness on the *choice* of the model that becomes a replayable scenario (e.g.
        # keep ages away from a threshold the compiled crate evaluates against the real clock); never part of the path
        # condition or of an obligation
        if self.prefer and self._check(*(list(extra) + list(self.prefer))):
            return self.solver.model()
        if self._check(*extra):
            return self.solver.model()
        return None

    def prove(self, prop, label, witness=None, info=None):
        """obligation: pc ⟹ prop.  Returns True when discharged (unsat), else records a violation."""
        self.stats['obligations'] += 1
        if prop is True:
            self.stats['discharged'] += 1
            return True
        neg = z3.BoolVal(True) if prop is False else z3.Not(prop)
        if prop is not False and not self._check(neg):
            self.stats['discharged'] += 1
            return True
        if prop is False:
            self._check()
        if self.prefer:
            if not self._check(*([neg] + list(self.prefer))):
                self._check(neg)
        m = self.solver.model()
        w = None
        if witness is not None:
            try:
                w = witness(m)
            except Exception as e:  # noqa
                w = {'witness_error': f'{type(e).__name__}: {e}', 'trace': traceback.format_exc()}
        self.violations.append({'label': label, 'witness': w, 'info': info, 'decisions': list(self.decisions)})
        return False

    def cover(self, goal):
        self.covers.add(goal)


def new_stats():
    return {'paths': 0, 'completed': 0, 'aborted': 0, 'panics': 0, 'queries': 0, 'solver_s': 0.0, 'unknown': 0,
            'obligations': 0, 'discharged': 0, 'transitions': 0, 'steps': 0}


_WORKER = {}


def _worker_init(factory, opts):
    z3.set_param('smt.random_seed', int(opts.get('seed', 0)) & 0x7fffffff)
    _WORKER['harness'] = factory()
    _WORKER['opts'] = opts
    _WORKER['solver'] = _mk_solver(opts)


def _mk_solver(opts):
    s = z3.Solver()
    s.set('timeout', int(opts.get('query_timeout_ms', 60000)))
    s.set('random_seed', int(opts.get('seed', 0)) & 0x7fffffff)
    return s


def run_paths(harness, solver, prefixes, opts, budget_paths, budget_s):
    """explore the subtrees below `prefixes` up to a budget; returns a result dict with leftovers"""
    stats = new_stats()
    res = {'stats': stats, 'violations': [], 'covers': set(), 'samples': [], 'leftover': [], 'error': None,
           'panic_samples': [], 'results': []}
    stack = list(prefixes)
    t0 = time.time()
    max_samples = opts.get('max_samples', 3)
    while stack:
        if stats['paths'] >= budget_paths or time.time() - t0 > budget_s:
            res['leftover'] = stack
            break
        prefix = stack.pop()
        solver.push()
        ctx = Ctx(solver, prefix, stats, opts)
        ctx.want_sample = len(res['samples']) < max_samples
        stats['paths'] += 1
        try:
            out = harness.run_path(ctx)
            stats['completed'] += 1
            if out is not None:
                if len(res['samples']) < max_samples and (max_samples <= 64 or (isinstance(out, dict) and out.get('scenario'))):
                    res['samples'].append(out)
                if opts.get('collect_results'):
                    res['results'].append(out)
        except PathAbort:
            stats['aborted'] += 1
        except Panic as p:
            stats['panics'] += 1
            if len(res['panic_samples']) < 3:
                res['panic_samples'].append({'msg': p.msg, 'where': p.where, 'decisions': list(ctx.decisions)})
            # a panic terminator reached in the code under test (or a harness-level "cannot happen") is a violation of
            # every property checked here: no check expects one on the unchanged tree (C18 catches its own)
            ctx.prove(False, 'panic in the code under test: ' + str(p.msg)[:200], getattr(ctx, 'panic_witness', None),
                      {'class': 'panic', 'where': str(p.where)[:200]})
        except Unsupported as e:
            res['error'] = f'unsupported: {e}\n' + traceback.format_exc()[-3000:]
            solver.pop()
            break
        except Exception as e:  # noqa: engine bug => inconclusive
            res['error'] = f'engine error: {type(e).__name__}: {e}\n' + traceback.format_exc()[-4000:]
            solver.pop()
            break
        solver.pop()
        stats['transitions'] += ctx.transitions
        res['violations'].extend(ctx.violations)
        res['covers'] |= ctx.covers
        stack.extend(ctx.alternatives)
        if len(res['violations']) >= opts.get('max_violations', 5):
            res['leftover'] = []
            res['stopped_on_violation'] = True
            break
    return res


def _worker_task(prefixes):
    opts = _WORKER['opts']
    try:
        return run_paths(_WORKER['harness'], _WORKER['solver'], prefixes, opts,
                         opts.get('task_paths', 400), opts.get('task_seconds', 20))
    except Exception as e:  # noqa
        r = {'stats': new_stats(), 'violations': [], 'covers': set(), 'samples': [], 'leftover': [],
             'panic_samples': [], 'results': [],
             'error': f'worker error: {type(e).__name__}: {e}\n' + traceback.format_exc()[-3000:]}
        return r


def explore(factory, opts):
    """explore all paths of factory().run_path in parallel.  opts: workers, seed, max_paths, time_limit_s."""
    t0 = time.time()
    workers = int(opts.get('workers') or os.environ.get('VERIF_WORKERS') or os.cpu_count() or 4)
    total = new_stats()
    agg = {'stats': total, 'violations': [], 'covers': set(), 'samples': [], 'error': None, 'panic_samples': [],
           'results': [], 'truncated': False}

    def merge(r):
        for k, v in r['stats'].items():
            total[k] += v
        agg['violations'].extend(r['violations'])
        agg['covers'] |= r['covers']
        for s in r['samples']:
            if len(agg['samples']) < opts.get('max_samples', 3) * 4:
                agg['samples'].append(s)
        agg['panic_samples'].extend(r['panic_samples'][:3])
        agg['results'].extend(r.get('results', []))
        if r['error'] and not agg['error']:
            agg['error'] = r['error']

    # phase 1: sequential warm-up in this process to build a frontier
    harness = factory()
    solver = _mk_solver(opts)
    r = run_paths(harness, solver, [[]], opts, opts.get('warmup_paths', 24), 30)
    merge(r)
    queue = [[p] for p in r['leftover']]
    time_limit = opts.get('time_limit_s', 1e9)
    max_paths = opts.get('max_paths', 1 << 60)
    max_viol = opts.get('max_violations', 5)
    if queue and not agg['error'] and len(agg['violations']) < max_viol:
        if workers <= 1:
            while queue and not agg['error']:
                r = run_paths(harness, solver, queue.pop(), opts, 1 << 60, time_limit - (time.time() - t0))
                merge(r)
                if r['leftover']:
                    agg['truncated'] = True
        else:
            ctxm = mp.get_context('fork')
            with ctxm.Pool(workers, initializer=_worker_init, initargs=(factory, opts)) as pool:
                pending = []
                while (queue or pending) and not agg['error']:
                    while queue and len(pending) < workers * 2:
                        pending.append(pool.apply_async(_worker_task, (queue.pop(),)))
                    done = [p for p in pending if p.ready()]
                    if not done:
                        time.sleep(0.01)
                    for p in done:
                        pending.remove(p)
                        r = p.get()
                        merge(r)
                        lo = r['leftover']
                        if lo:
                            # split leftovers so idle workers get something
                            k = max(1, len(lo) // 4)
                            for i in range(0, len(lo), k):
                                queue.append(lo[i:i + k])
                    if len(agg['violations']) >= max_viol:
                        break
                    if time.time() - t0 > time_limit or total['paths'] > max_paths:
                        agg['truncated'] = bool(queue or pending)
                        break
                pool.terminate()
    agg['wall_s'] = time.time() - t0
    return agg
