#!/bin/bash
# usage: run_one.sh <harness> [timeout_s]  -> prints "<harness> <SUCCESSFUL|FAILED|TIMEOUT|ERROR> <seconds>"
h="$1"; t="${2:-300}"
cd "$(dirname "$0")"
export CARGO_NET_OFFLINE=true
export RUSTFLAGS="--cfg gothenburgbitfactory_taskchampion_verif"
B="${VERIF_BUILD:-$(cd .. && pwd)/.build}"
mkdir -p "$B/kani-logs"
log="$B/kani-logs/$h.log"
s=$(date +%s)
( ulimit -v 12000000; timeout "$t" cargo kani --target-dir "$B/kani-target" --harness "$h" --exact > "$log" 2>&1 )
rc=$?
e=$(( $(date +%s) - s ))
if [ $rc -eq 124 ]; then echo "$h TIMEOUT $e"; exit 0; fi
if grep -q "VERIFICATION:- SUCCESSFUL" "$log"; then echo "$h SUCCESSFUL $e";
elif grep -q "VERIFICATION:- FAILED" "$log"; then echo "$h FAILED $e";
else echo "$h ERROR $e"; fi
