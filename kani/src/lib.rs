//! Engine K: Kani/CBMC proof harnesses over the compiled crate for hash-free integer/byte kernels.
//! Built with `--cfg gothenburgbitfactory_taskchampion_verif` so that `taskchampion::verif` exposes the
//! crate-private kernels.  Every harness has a twin reachability witness (`*_reach`) whose final
//! `assert!(false)` must be reported as FAILED (vacuity guard).
#![allow(dead_code)]

#[cfg(kani)]
mod harnesses {
    use taskchampion::chrono::{DateTime, TimeZone, Utc};

    /// chrono's representable range in seconds, as used by the MIR engine's model of chrono
    const MIN_SECS: i64 = -8334601228800;
    const MAX_SECS: i64 = 8210266876799;

    // ------------------------------------------------------------------ K2: chrono range / totality (C18, C20)

    /// DateTime::from_timestamp(s, 0) is total over all i64 and Some exactly on [MIN_SECS, MAX_SECS]
    #[kani::proof]
    fn k_chrono_range() {
        let s: i64 = kani::any();
        let r = DateTime::from_timestamp(s, 0);
        assert!(r.is_some() == (s >= MIN_SECS && s <= MAX_SECS));
    }

    #[kani::proof]
    fn k_chrono_range_reach() {
        let s: i64 = kani::any();
        let r = DateTime::from_timestamp(s, 0);
        kani::cover!(r.is_some());
        kani::cover!(r.is_none());
        assert!(false);
    }

    /// Utc.timestamp_opt(s, 0).single() (what the task readers use) is total and agrees with the range
    #[kani::proof]
    fn k_timestamp_opt_total() {
        let s: i64 = kani::any();
        let r = Utc.timestamp_opt(s, 0).single();
        assert!(r.is_some() == (s >= MIN_SECS && s <= MAX_SECS));
    }

    #[kani::proof]
    fn k_timestamp_opt_total_reach() {
        let s: i64 = kani::any();
        let _ = Utc.timestamp_opt(s, 0).single();
        assert!(false);
    }

    /// utc_timestamp (public) returns normally on the whole representable range
    #[kani::proof]
    fn k_utc_timestamp_in_range() {
        let s: i64 = kani::any();
        kani::assume(s >= MIN_SECS && s <= MAX_SECS);
        let _dt = taskchampion::utc_timestamp(s);
    }

    #[kani::proof]
    fn k_utc_timestamp_in_range_reach() {
        let s: i64 = kani::any();
        kani::assume(s >= MIN_SECS && s <= MAX_SECS);
        let _ = taskchampion::utc_timestamp(s);
        assert!(false);
    }
}

#[cfg(all(kani, gothenburgbitfactory_taskchampion_verif))]
mod kernel_harnesses {
    use taskchampion::chrono::DateTime;
    use taskchampion::verif::{self, VOp};
    use taskchampion::Uuid;

    fn any_uuid3() -> Uuid {
        // uuids from a pool of three (equality is all that matters to transform)
        let k: u8 = kani::any();
        kani::assume(k < 3);
        Uuid::from_u128(k as u128 + 1)
    }

    fn any_str1() -> String {
        // strings of length 0..1 over two letters
        let k: u8 = kani::any();
        kani::assume(k < 3);
        match k {
            0 => String::new(),
            1 => String::from("a"),
            _ => String::from("b"),
        }
    }

    fn any_ts() -> DateTime<taskchampion::chrono::Utc> {
        let s: i64 = kani::any();
        kani::assume(s >= 0 && s <= 4_000_000_000);
        DateTime::from_timestamp(s, 0).unwrap()
    }

    fn any_op() -> VOp {
        let k: u8 = kani::any();
        kani::assume(k < 3);
        match k {
            0 => VOp::Create { uuid: any_uuid3() },
            1 => VOp::Delete { uuid: any_uuid3() },
            _ => {
                let has: bool = kani::any();
                VOp::Update {
                    uuid: any_uuid3(),
                    property: any_str1(),
                    value: if has { Some(any_str1()) } else { None },
                    timestamp: any_ts(),
                }
            }
        }
    }

    fn uuid_of(op: &VOp) -> Uuid {
        match op {
            VOp::Create { uuid } | VOp::Delete { uuid } | VOp::Update { uuid, .. } => *uuid,
        }
    }

    // ------------------------------------------------------------------ K1: the documented conflict table (C03)

    #[kani::proof]
    #[kani::unwind(20)]
    fn k_transform_table() {
        let a = any_op();
        let b = any_op();
        let (a2, b2) = verif::transform(a.clone(), b.clone());
        if uuid_of(&a) != uuid_of(&b) {
            // different tasks: both kept unchanged
            assert!(a2 == Some(a) && b2 == Some(b));
            return;
        }
        match (&a, &b) {
            (VOp::Create { .. }, VOp::Create { .. }) | (VOp::Delete { .. }, VOp::Delete { .. }) => {
                assert!(a2.is_none() && b2.is_none());
            }
            // delete beats update
            (VOp::Update { .. }, VOp::Delete { .. }) => assert!(a2.is_none() && b2 == Some(b.clone())),
            (VOp::Delete { .. }, VOp::Update { .. }) => assert!(b2.is_none() && a2 == Some(a.clone())),
            (
                VOp::Update { property: p1, value: v1, timestamp: t1, .. },
                VOp::Update { property: p2, value: v2, timestamp: t2, .. },
            ) => {
                if p1 != p2 {
                    assert!(a2 == Some(a.clone()) && b2 == Some(b.clone()));
                } else if t1 < t2 {
                    assert!(a2.is_none() && b2 == Some(b.clone()));
                } else if t1 > t2 {
                    assert!(b2.is_none() && a2 == Some(a.clone()));
                } else if v1 == v2 {
                    // identical modifications: nothing more is needed, or one of them is kept
                    assert!(!(a2.is_some() && b2.is_some()));
                } else {
                    // tie: exactly one survives, and it is the same one whichever side it arrives on
                    assert!(a2.is_some() != b2.is_some());
                }
            }
            _ => {}
        }
    }

    #[kani::proof]
    #[kani::unwind(20)]
    fn k_transform_table_reach() {
        let a = any_op();
        let b = any_op();
        let _ = verif::transform(a, b);
        assert!(false);
    }

    /// the winner never depends on which operation is "first": transform(a,b) mirrors transform(b,a)
    #[kani::proof]
    #[kani::unwind(20)]
    fn k_transform_symmetric() {
        let a = any_op();
        let b = any_op();
        let (a2, b2) = verif::transform(a.clone(), b.clone());
        let (b3, a3) = verif::transform(b.clone(), a.clone());
        let same_task = uuid_of(&a) == uuid_of(&b);
        let invalid_pair = matches!(
            (&a, &b),
            (VOp::Create { .. }, VOp::Delete { .. })
                | (VOp::Delete { .. }, VOp::Create { .. })
                | (VOp::Create { .. }, VOp::Update { .. })
                | (VOp::Update { .. }, VOp::Create { .. })
        );
        if !(same_task && invalid_pair) {
            assert!(a2 == a3 && b2 == b3);
        }
    }

    // ------------------------------------------------------------------ K4: from_op (C14)

    #[kani::proof]
    #[kani::unwind(20)]
    fn k_from_op() {
        use taskchampion::Operation;
        let k: u8 = kani::any();
        kani::assume(k < 3);
        let u = any_uuid3();
        match k {
            0 => assert!(verif::from_op(Operation::Create { uuid: u }) == Some(VOp::Create { uuid: u })),
            1 => assert!(verif::from_op(Operation::UndoPoint).is_none()),
            _ => {
                let p = any_str1();
                let has: bool = kani::any();
                let v = if has { Some(any_str1()) } else { None };
                let old = Some(any_str1());
                let t = any_ts();
                let r = verif::from_op(Operation::Update {
                    uuid: u,
                    property: p.clone(),
                    old_value: old,
                    value: v.clone(),
                    timestamp: t,
                });
                assert!(r == Some(VOp::Update { uuid: u, property: p, value: v, timestamp: t }));
            }
        }
    }

    // ------------------------------------------------------------------ K3: envelope framing (C13)

    #[kani::proof]
    #[kani::unwind(42)]
    fn k_envelope_from_bytes() {
        let buf: [u8; 40] = kani::any();
        let len: usize = kani::any();
        kani::assume(len <= 40);
        let r = verif::encryption::envelope_from_bytes(&buf[..len]);
        if len <= 13 || buf[0] != 1 {
            assert!(r.is_err());
        } else {
            let (nonce, payload) = r.unwrap();
            assert!(nonce.len() == 12 && payload.len() == len - 13);
            assert!(nonce[0] == buf[1] && nonce[11] == buf[12]);
            assert!(payload[0] == buf[13] && payload[payload.len() - 1] == buf[len - 1]);
        }
    }

    #[kani::proof]
    #[kani::unwind(42)]
    fn k_envelope_roundtrip() {
        let nonce: [u8; 12] = kani::any();
        let payload: [u8; 20] = kani::any();
        let len: usize = kani::any();
        kani::assume(len >= 1 && len <= 20);
        let bytes = verif::encryption::envelope_to_bytes(&nonce, &payload[..len]);
        assert!(bytes.len() == 13 + len && bytes[0] == 1);
        let (n2, p2) = verif::encryption::envelope_from_bytes(&bytes).unwrap();
        assert!(n2[0] == nonce[0] && n2[11] == nonce[11] && p2.len() == len && p2[0] == payload[0]);
    }
}
