#!/bin/bash
# pre-build the Kani harness crate (and check the tool chain works) by running the cheapest harness
cd "$(dirname "$0")"
cp /repo/Cargo.lock Cargo.lock 2>/dev/null
./run_one.sh harnesses::k_chrono_range_reach 600
