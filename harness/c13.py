"""C13 — data leaving the host is sealed, version-bound and tamper-evident (Rust-side construction).

Real code: Cryptor::{new, derive_key, seal, unseal, make_aad}, Envelope::{to_bytes, from_bytes}, and the
object-store call sites (CloudServer::add_version / get_child_version / add_snapshot / get_snapshot).
ring's PBKDF2 and ChaCha20-Poly1305 are replaced by the ideal model of mirsym.models.crypto."""
import z3

from mirsym.values import Adt, clone_val, PyVec, PySlice, Some, NONE, mkref, SegStr, Bytes, deref
from mirsym.values import Adt, clone_val, PyVec, PySlice, Some, NONE, mkref, SegStr, Bytes
from mirsym.models.core import val_eq, z_and, z_all, z_any, z_not, z_or
from mirsym.models.crypto import CtByte, TagByte, CtBlob, KdfByte, UuidByte, crypto_log
from .common import get_interp, show, World
from .cloudworld import CloudWorld

PROPERTY = 'C13'
REPLAY_RETRIES = 2
LEVEL = 'other'

# documented constants, written here independently of the code (docs/src/encryption.md, sync-protocol.md)
DOC_KDF = 'static:PBKDF2_HMAC_SHA256'
DOC_ITERATIONS = 600000
DOC_AEAD = 'static:CHACHA20_POLY1305'
DOC_APP_ID = 1
DOC_ENVELOPE_VERSION = 1
DOC_NONCE_LEN = 12


def sym_bytes(c, n, label):
    return PyVec([c.fresh_int(label, 0, 255) for _ in range(n)])


class CryptorHarness:
    def __init__(self, mode, name):
        self.I = get_interp()
        self.mode, self.name = mode, name

    def mk(self, salt, secret):
        I = self.I
        sec = I.call('<Secret as From>::from', [clone_val(secret)]) if False else Adt('Secret', 0, [clone_val(secret)])
        r = I.call('Cryptor::new', [clone_val(salt), mkref(sec)])
        if r.variant != 0:
            raise Panic('Cryptor::new failed')
        return r.fields[0]

    def run_path(self, ctx):
        c, I = ctx, self.I
        w = World(I, ctx)
        I.env['crypto_log'] = {'kdf': [], 'seal': [], 'open': [], 'rand': []}
        log = I.env['crypto_log']
        salt = sym_bytes(c, 16, 'salt')
        secret = sym_bytes(c, 1 + c.choose(2, 'secret-len'), 'secret')
        vid = c.fresh_int('vid', 0, 2 ** 128 - 1)
        plen = c.choose(3, 'payload-len')
        payload = sym_bytes(c, plen, 'pt')
        cr = self.mk(salt, secret)

        opens = []       # opening attempts made on this path, in replayable form (filled in below)

        def wit(m):
            d = {'mode': self.mode, 'salt': show(salt, m), 'secret': show(secret, m), 'vid': show(vid, m), 'payload': show(payload, m)}
            d['scenario'] = {'kind': 'seal', 'salt': d['salt'], 'secret': d['secret'], 'version': str(d['vid']), 'payload': d['payload'],
                             'opens': [o(m) for o in opens]}
            return d
        # --- key derivation parameters
        k = log['kdf'][-1]
        ok = (k.alg.name == DOC_KDF and k.iterations == DOC_ITERATIONS and cr.fields[0].fields[0].name == DOC_AEAD
              and len(cr.fields[0].fields[1].items) == 32)
        if not c.prove(ok and z_and(val_eq(k.salt, salt), val_eq(k.secret, secret)) is not False,
                       'key is not PBKDF2-HMAC-SHA256(secret, salt, 600000) for ChaCha20-Poly1305', wit,
                       {'class': 'kdf', 'alg': k.alg.name, 'iterations': k.iterations, 'aead': cr.fields[0].fields[0].name}):
            return None
        if not c.prove(z_and(val_eq(k.salt, salt), val_eq(k.secret, secret)), 'KDF inputs are not the given salt and secret', wit, {'class': 'kdf-inputs'}):
            return None
        # --- seal
        nrand0 = len(log['rand'])
        r = I.call('Cryptor::seal', [mkref(cr), Adt('Unsealed', 0, [vid, clone_val(payload)])])
        if r.variant != 0:
            c.prove(False, 'seal failed', wit, {'class': 'seal-err'})
            return None
        sealed = r.fields[0]
        sbytes = sealed.fields[1].items
        rec = log['seal'][-1]
        fresh = log['rand'][nrand0:]
        lay = (len(sbytes) == 1 + DOC_NONCE_LEN + plen + 16 and sbytes[0] == DOC_ENVELOPE_VERSION)
        if not c.prove(lay, 'sealed value is not: format byte 1, 12-byte nonce, ciphertext, 16-byte tag', wit,
                       {'class': 'layout', 'len': len(sbytes), 'first': repr(sbytes[0])}):
            return None
        nonce = sbytes[1:13]
        is_fresh = len(fresh) == 1 and len(fresh[0]) == DOC_NONCE_LEN and all(a is b for a, b in zip(nonce, fresh[0])) \
            and all(a is b for a, b in zip(rec.nonce.items, fresh[0]))
        if not c.prove(is_fresh, 'the nonce is not 12 fresh random bytes drawn for this seal', wit, {'class': 'nonce'}):
            return None
        body_ok = all(isinstance(x, CtByte) and x.rec is rec and x.i == i for i, x in enumerate(sbytes[13:13 + plen])) and \
            all(isinstance(x, TagByte) and x.rec is rec and x.i == i for i, x in enumerate(sbytes[13 + plen:]))
        if not c.prove(body_ok, 'sealed value does not carry ciphertext and tag of the payload (plaintext leaked or reordered)', wit, {'class': 'body'}):
            return None
        aad = rec.aad.items
        aad_ok = len(aad) == 17 and aad[0] == DOC_APP_ID and all(isinstance(x, UuidByte) and x.i == i for i, x in enumerate(aad[1:]))
        if not (aad_ok and c.prove(z_all(x.u == vid for x in aad[1:]), 'AAD does not bind the version id', wit, {'class': 'aad'})):
            if not aad_ok:
                c.prove(False, 'AAD is not app id 1 followed by the 16-byte version id', wit, {'class': 'aad', 'aad': repr(aad)[:200]})
            return None
        if not c.prove(z_and(val_eq(rec.plain if False else PyVec(rec.plain), payload), rec.alg.name == DOC_AEAD), 'sealed something other than the payload', wit, {'class': 'plain'}):
            return None
        c.cover('sealed layout checked')
        mode = self.mode
        if mode == 'roundtrip':
            opens.append(lambda m: {'expect': 'ok'})
            r = I.call('Cryptor::unseal', [mkref(cr), Adt('Sealed', 0, [vid, PyVec(list(sbytes))])])
            ok = r.variant == 0 and val_eq(r.fields[0].fields[1], payload) if r.variant == 0 else False
            if not c.prove(ok, 'unseal(seal(x)) != x', wit, {'class': 'roundtrip'}):
                return None
            c.cover('round trip')
        elif mode == 'context':
            # another Cryptor / version id: opening succeeds iff secret, salt and version id are all the same
            salt2 = sym_bytes(c, 16, 'salt2')
            secret2 = sym_bytes(c, len(secret.items), 'secret2')
            vid2 = c.fresh_int('vid2', 0, 2 ** 128 - 1)
            cr2 = self.mk(salt2, secret2)
            opens.append(lambda m: {'salt': show(salt2, m), 'secret': show(secret2, m), 'version': str(show(vid2, m)),
                                    'expect': 'ok' if (show(salt2, m) == show(salt, m) and show(secret2, m) == show(secret, m)
                                                       and show(vid2, m) == show(vid, m)) else 'err'})
            r = I.call('Cryptor::unseal', [mkref(cr2), Adt('Sealed', 0, [vid2, PyVec(list(sbytes))])])
            same = z_all([val_eq(salt2, salt), val_eq(secret2, secret), vid2 == vid])
            if r.variant == 0:
                c.cover('opened with identical context')
                if not c.prove(z_and(same, val_eq(r.fields[0].fields[1], payload)), 'a sealed value was opened under a different secret, salt or version id', wit,
                               {'class': 'context-accepted'}):
                    return None
            else:
                c.cover('rejected foreign context')
                if not c.prove(z_not(same), 'a sealed value was rejected although secret, salt and version id match', wit, {'class': 'context-rejected'}):
                    return None
        elif mode == 'tamper':
            kinds = ['modify', 'truncate', 'extend', 'swap-envelope-version']
            kind = kinds[c.choose(len(kinds), 'tamper')]
            t = list(sbytes)
            if kind == 'modify':
                i = c.choose(len(t), 'position')
                nb = c.fresh_int('tampered', 0, 255)
                if isinstance(t[i], int) or z3.is_expr(t[i]):
                    c.assume(nb != t[i])
                t[i] = nb
                opens.append(lambda m: {'tamper': {'kind': 'modify', 'index': i, 'xor': 1 + show(nb, m) % 255}, 'expect': 'err'})
            elif kind == 'truncate':
                keep = c.choose(len(t), 'keep')
                t = t[:keep]
                opens.append(lambda m: {'tamper': {'kind': 'truncate', 'keep': keep}, 'expect': 'err'})
            elif kind == 'extend':
                extra = c.fresh_int('extra', 0, 255)
                t = t + [extra]
                opens.append(lambda m: {'tamper': {'kind': 'extend', 'bytes': [show(extra, m)]}, 'expect': 'err'})
            else:
                t[0] = c.fresh_int('envver', 0, 255)
                c.assume(t[0] != 1)
                ev = t[0]
                opens.append(lambda m: {'tamper': {'kind': 'modify', 'index': 0, 'xor': show(ev, m) ^ 1}, 'expect': 'err'})
            r = I.call('Cryptor::unseal', [mkref(cr), Adt('Sealed', 0, [vid, PyVec(t)])])
            if not c.prove(r.variant == 1, 'modified / truncated / extended data was returned instead of rejected', wit,
                           {'class': 'tamper-accepted', 'kind': kind}):
                return None
            c.cover('tamper rejected: ' + kind)
        out = {'mode': mode, 'payload_len': plen}
        if c.want_sample:
            m = c.get_model()
            if m is not None:
                out['scenario'] = wit(m)['scenario']
                out['predicted'] = {'kind': 'seal'}
            out['_encoded'] = sorted(I.encoded)
            out['_modelled'] = sorted(I.modelled)
        return out


class CallSiteHarness:
    """object-store call sites: what reaches the store is sealed and bound to the object's own version id"""

    def __init__(self, name):
        self.I = get_interp()
        self.name = name

    def run_path(self, ctx):
        c, I = ctx, self.I
        w = CloudWorld(I, ctx, concrete_now=2_000_000_000)
        I.env['crypto_log'] = {'kdf': [], 'seal': [], 'open': [], 'rand': []}
        I.env['rand_byte'] = lambda I2, n, i: 200 if n == 1 else None
        srv = w.new_server(0)[0]
        pl = sym_bytes(c, 1 + c.choose(2, 'len'), 'pt')
        r = w.run(w.f_add_version(srv, 0, clone_val(pl)))
        vid = r.fields[0].fields[0].fields[0]
        spl = sym_bytes(c, 1, 'snap')
        w.run(w.f_add_snapshot(srv, vid, clone_val(spl)))

        def wit(m):
            scn, pred = w.record(m)
            scn['inspect_sealing'] = True
            return {'store': [repr(o['name'])[:80] for o in w.store.objs], 'scenario': scn, 'payloads': [show(pl, m), show(spl, m)]}
        plain_terms = [id(x) for x in pl.items + spl.items]
        for o in w.store.objs:
            n = o['name']
            if not isinstance(n, SegStr):
                continue
            val = o['value'].items
            own = n.segs[3][1] if n.segs[0] == 'v-' else n.segs[1][1]
            leaked = any(id(x) in plain_terms for x in val)
            sealed_ok = len(val) >= 30 and val[0] == 1 and isinstance(val[-1], TagByte)
            if not c.prove(sealed_ok and not leaked, 'an object was stored without being sealed (task content visible in the store)', wit, {'class': 'plaintext-stored'}):
                return None
            rec = val[-1].rec
            aad = rec.aad.items
            bound = len(aad) == 17 and aad[0] == 1 and all(isinstance(x, UuidByte) for x in aad[1:])
            if not (bound and c.prove(z_all(x.u == own for x in aad[1:]), 'a stored object is not bound to its own version id', wit, {'class': 'binding'})):
                if not bound:
                    c.prove(False, 'a stored object has a malformed AAD', wit, {'class': 'binding'})
                return None
        # relabelled object: a version object copied under another version's name must be rejected
        vobj = [o for o in w.store.objs if isinstance(o['name'], SegStr) and o['name'].segs[0] == 'v-'][0]
        other = w.new_uuid()
        w.store.seq += 1
        newname = SegStr(['v-', ('uuid', vid), '-', ('uuid', other)])
        w.store.objs.append({'name': newname, 'value': PyVec(list(vobj['value'].items)), 'creation': 2_000_000_000, 'seq': w.store.seq})
        w._phase('tweak')['tweaks'].append(('copy', vobj['name'], newname))
        for o in w.store.objs:
            if o['name'] == 'latest':
                from mirsym.models import strings
                o['value'] = strings.into_bytes(I, SegStr([('uuid', other)]))
        w._phase('tweak')['tweaks'].append(('put_latest', other))
        r = w.run(w.f_get_child_version(srv, vid))
        if not c.prove(r.variant == 1, 'a re-labelled object (sealed for another version id) was returned instead of rejected', wit, {'class': 'relabel'}):
            return None
        c.cover('relabelled object rejected')
        out = {'objects': len(w.store.objs)}
        if c.want_sample:
            m = c.get_model()
            if m is not None:
                d = wit(m)
                out['scenario'] = d['scenario']
                out['predicted'] = {'kind': 'cloud', 'payloads': d['payloads']}
            out['_encoded'] = sorted(I.encoded)
            out['_modelled'] = sorted(I.modelled)
        return out



class HttpCallSiteHarness:
    """HTTP call sites (src/server/sync/mod.rs): what is sent is sealed under a key salted with the client id, versions are
    bound to their parent version id and snapshots to their own version id; what is received is opened only under the
    binding the protocol prescribes, so a body sealed for another version id is rejected however the server labels it"""

    def __init__(self, name):
        self.I = get_interp(variant='full')
        self.name = name

    def run_path(self, ctx):
        from .common import World
        from .httpworld import HttpWorld, dashed, CT_SEGMENT, CT_SNAPSHOT
        from mirsym.models import http
        c, I = ctx, self.I
        World(I, ctx)
        cid = c.fresh_int('client_id', 1, 2 ** 128 - 1)
        w = HttpWorld(I, ctx, client_id=cid)
        log = I.env['crypto_log']
        srv = w.new_client()
        srvm = w.server
        P = c.fresh_int('parent', 0, 2 ** 128 - 1)
        c.assume(z3.And(P != 7001, P != 7002, P != 7003))
        pl1 = sym_bytes(c, 1 + c.choose(2, 'len'), 'pt')
        pl2 = sym_bytes(c, 1, 'pt2')
        spl = sym_bytes(c, 1, 'snap')

        attack_spec = {'k': None}

        def scenario(m):
            def lit(t):
                return {'lit': str(show(t, m))}
            cs = [{'h': 0, 'call': 'add_version', 'parent': lit(P), 'payload': show(pl1, m)},
                  {'h': 0, 'call': 'add_version', 'parent': {'ref': 0}, 'payload': show(pl2, m)},
                  {'h': 0, 'call': 'add_snapshot', 'version': {'ref': 0}, 'payload': show(spl, m)},
                  {'h': 0, 'call': 'get_child_version', 'parent': lit(P)},
                  {'h': 0, 'call': 'get_snapshot'}]
            k = attack_spec['k']
            if k is not None:
                Qv = lit(attack_spec['Q'])
                cs.append([
                    {'h': 0, 'call': 'get_child_version', 'parent': Qv, 'tamper': {'body_of_version': 0, 'version': {'ref': 0}, 'parent': Qv}},
                    {'h': 0, 'call': 'get_child_version', 'parent': lit(P), 'tamper': {'body_of_version': 1, 'version': {'ref': 0}, 'parent': lit(P)}},
                    {'h': 0, 'call': 'get_child_version', 'parent': {'ref': 0}, 'tamper': {'body_of_version': 0, 'version': lit(P), 'parent': {'ref': 0}}},
                    {'h': 0, 'call': 'get_snapshot', 'tamper': {'as': 'snapshot', 'version': {'ref': 1}}},
                    {'h': 0, 'call': 'get_snapshot', 'tamper': {'as': 'snapshot', 'body_of_version': 1, 'version': {'ref': 1}}},
                ][k])
            return {'kind': 'srvcalls', 'backend': 'http', 'handles': 1, 'client_id': str(show(cid, m)), 'secret': list(w.secret),
                    'calls': cs, 'inspect_sealing': True}

        def wit(m):
            return {'backend': 'http', 'client_id': show(cid, m), 'parent': show(P, m), 'requests': [(q[0], q[1], show(q[2], m)) for q in srvm.requests],
                    'scenario': scenario(m), 'payloads': [show(pl1, m), show(pl2, m), show(spl, m)]}
        # --- key derivation: salt = the 16 bytes of the client id
        if len(log['kdf']) != 1:
            c.prove(False, 'the HTTP client derived no key or more than one', wit, {'class': 'http-kdf'})
            return None
        salt = log['kdf'][0].salt
        salt = salt.items if hasattr(salt, 'items') else salt
        salt_ok = len(salt) == 16 and all(isinstance(x, UuidByte) and x.i == k for k, x in enumerate(salt))
        if not (salt_ok and c.prove(z_all(x.u == cid for x in salt), 'the key of the HTTP client is not salted with the client id', wit, {'class': 'http-salt'})):
            if not salt_ok:
                c.prove(False, 'the key of the HTTP client is not salted with the 16 bytes of the client id', wit, {'class': 'http-salt'})
            return None
        # --- two versions and a snapshot are sent
        r = w.run(w.f_add_version(srv, P, clone_val(pl1)))
        if r.variant != 0 or r.fields[0].fields[0].variant != 0:
            raise Panic('add_version failed: ' + repr(r)[:200])
        X = r.fields[0].fields[0].fields[0]
        r = w.run(w.f_add_version(srv, X, clone_val(pl2)))
        Y = r.fields[0].fields[0].fields[0]
        r = w.run(w.f_add_snapshot(srv, X, clone_val(spl)))
        if r.variant != 0:
            raise Panic('add_snapshot failed: ' + repr(r)[:200])
        plain = [id(x) for x in pl1.items + pl2.items + spl.items]
        posts = [q for q in srvm.requests if q[0] == 'POST']
        expect_bind = [P, X, X]
        if len(posts) != 3 or srvm.problems:
            c.prove(False, 'requests do not follow docs/src/http.md', wit, {'class': 'request-format', 'problem': repr(srvm.problems[:1])})
            return None
        for q, own in zip(posts, expect_bind):
            body = deref(q[4])
            val = body.items if hasattr(body, 'items') else None
            leaked = val is None or any(id(x) in plain for x in val)
            sealed_ok = val is not None and len(val) >= 30 and val[0] == 1 and isinstance(val[-1], TagByte)
            if not c.prove(sealed_ok and not leaked, 'a request body left the host without being sealed', wit, {'class': 'http-plaintext', 'endpoint': q[1]}):
                return None
            for k, hv in q[3]:
                if not isinstance(hv, (str, SegStr)):
                    c.prove(False, 'a request header carries non-text data', wit, {'class': 'http-plaintext', 'header': repr(k)})
                    return None
            aad = val[-1].rec.aad.items
            bound = len(aad) == 17 and aad[0] == 1 and all(isinstance(x, UuidByte) for x in aad[1:])
            if not (bound and c.prove(z_all(x.u == own for x in aad[1:]), 'a request body is not bound to the documented version id (versions: the parent version id; snapshots: their own version id)', wit,
                                      {'class': 'http-binding', 'endpoint': q[1]})):
                if not bound:
                    c.prove(False, 'a request body has a malformed AAD', wit, {'class': 'http-binding', 'endpoint': q[1]})
                return None
        c.cover('http: requests sealed and bound')
        # --- honest read back
        r = w.run(w.f_get_child_version(srv, P))
        ok = r.variant == 0 and r.fields[0].variant == 1 and val_eq(r.fields[0].fields[2], pl1)
        if r.variant != 0 or r.fields[0].variant != 1 or not c.prove(ok, 'a version sealed by this client does not open to the original bytes', wit, {'class': 'http-roundtrip'}):
            if r.variant != 0 or r.fields[0].variant != 1:
                c.prove(False, 'a version sealed by this client was not returned', wit, {'class': 'http-roundtrip', 'got': repr(r)[:160]})
            return None
        r = w.run(w.f_get_snapshot(srv))
        ok = r.variant == 0 and r.fields[0].variant == 1 and val_eq(r.fields[0].fields[0].fields[1], spl)
        if not (r.variant == 0 and r.fields[0].variant == 1) or not c.prove(ok, 'a snapshot sealed by this client does not open to the original bytes', wit, {'class': 'http-roundtrip'}):
            if not (r.variant == 0 and r.fields[0].variant == 1):
                c.prove(False, 'a snapshot sealed by this client was not returned', wit, {'class': 'http-roundtrip', 'got': repr(r)[:160]})
            return None
        c.cover('http: round trip')
        # --- a server that re-labels what it stores
        body_x, body_y, body_s = srvm.chain[0][2], srvm.chain[1][2], srvm.snapshot[1]
        R = http.Response
        Q = c.fresh_int('other', 0, 2 ** 128 - 1)
        c.assume(z3.And(Q != P, Q != X, Q != Y))
        attacks = [
            ('version body served as the child of another parent', lambda: w.f_get_child_version(srv, Q),
             lambda ep, resp: R(200, [('content-type', CT_SEGMENT), ('x-version-id', dashed(X)), ('x-parent-version-id', dashed(Q))], body_x, resp.url)),
            ("grandchild's body served as the child, labelled with the child's id", lambda: w.f_get_child_version(srv, P),
             lambda ep, resp: R(200, [('content-type', CT_SEGMENT), ('x-version-id', dashed(X)), ('x-parent-version-id', dashed(P))], body_y, resp.url)),
            ("child's body served under a foreign version id", lambda: w.f_get_child_version(srv, X),
             lambda ep, resp: R(200, [('content-type', CT_SEGMENT), ('x-version-id', dashed(P)), ('x-parent-version-id', dashed(X))], body_x, resp.url)),
            ('snapshot labelled with another version id', lambda: w.f_get_snapshot(srv),
             lambda ep, resp: R(200, [('content-type', CT_SNAPSHOT), ('x-version-id', dashed(Y))], body_s, resp.url)),
            ('version body served as the snapshot of its own id', lambda: w.f_get_snapshot(srv),
             lambda ep, resp: R(200, [('content-type', CT_SNAPSHOT), ('x-version-id', dashed(Y))], body_y, resp.url)),
        ]
        k = c.choose(len(attacks), 'attack')
        attack_spec['k'], attack_spec['Q'] = k, Q
        name, call, tamper = attacks[k]
        srvm.tamper = tamper
        r = w.run(call())
        srvm.tamper = None
        if not c.prove(r.variant == 1, 're-labelled data was returned instead of rejected: ' + name, wit, {'class': 'http-relabel', 'attack': name}):
            return None
        c.cover('http: re-labelled data rejected: ' + name)
        out = {'backend': 'http', 'attack': name}
        if c.want_sample:
            m = c.get_model()
            if m is not None:
                d = wit(m)
                out['scenario'] = d['scenario']
                out['predicted'] = {'kind': 'http', 'payloads': d['payloads']}
            out['_encoded'] = sorted(I.encoded)
            out['_modelled'] = sorted(I.modelled)
        return out

def _seal_problems(scn, out):
    """judge tc-replay's output for a 'seal' scenario against the documented construction (docs/src/encryption.md);
    the reference is an independent implementation written directly on ring inside the replay binary"""
    probs = []
    if not isinstance(out, dict) or 'seal_err' in out or 'panic' in out or 'error' in out:
        return [{'replay': str(out)[:300]}]
    pl = scn['payload']
    if out.get('format_byte') != 1 or out.get('sealed_len') != 1 + 12 + len(pl) + 16:
        probs.append({'layout': [out.get('format_byte'), out.get('sealed_len')]})
    if out.get('independent_open') != {'ok': pl}:
        probs.append({'independent implementation of the documented construction cannot open what the crate sealed': out.get('independent_open')})
    if out.get('crate_opens_independent') != {'ok': pl}:
        probs.append({'crate cannot open what the documented construction sealed': out.get('crate_opens_independent')})
    if out.get('round_trip') != {'ok': pl}:
        probs.append({'round_trip': out.get('round_trip')})
    if out.get('nonce_fresh') is not True:
        probs.append({'nonce_fresh': out.get('nonce_fresh')})
    for o, r in zip(scn.get('opens', []), out.get('opens', [])):
        if o.get('expect') == 'ok' and r != {'ok': pl}:
            probs.append({'open rejected or wrong': r, 'attempt': o})
        if o.get('expect') == 'err' and 'err' not in r:
            probs.append({'open accepted': r, 'attempt': o})
    return probs


def _http_problems(scn, out, payloads):
    """property C13 on the compiled HTTP client: every body that reached the in-process sync server opens, with the independent
    implementation of the documented construction, under salt = client id and the documented binding, to what was handed
    over; no request carried plaintext; the honest read-back returned the bytes; the re-labelled answer was rejected"""
    probs = []
    if not isinstance(out, dict) or 'results' not in out:
        return [{'replay': str(out)[:300]}]
    if out.get('request_problems'):
        probs.append({'request_problems': out['request_problems']})
    if out.get('plaintext_in_a_request_body'):
        probs.append({'plaintext_in_a_request_body': True})
    seal = out.get('sealing', [])
    if len(seal) != 3:
        probs.append({'objects_at_the_server': len(seal)})
    for o, want in zip(seal, payloads):
        okk = o.get('opens_bound_to_parent_with_client_id_salt', o.get('opens_bound_to_own_id_with_client_id_salt'))
        if not okk:
            probs.append({'not sealed in the documented form (salt = client id, documented binding)': o})
        elif o.get('plain') != want:
            probs.append({'opens to something else than what was handed over': o})
    res = out['results']
    if len(res) >= 5:
        if not (isinstance(res[3], dict) and res[3].get('version', {}).get('bytes') == payloads[0]):
            probs.append({'honest read-back of the version': res[3]})
        if not (isinstance(res[4], dict) and res[4].get('snapshot', {}).get('bytes') == payloads[2]):
            probs.append({'honest read-back of the snapshot': res[4]})
    if len(res) >= 6 and not (isinstance(res[5], dict) and 'err' in res[5]):
        probs.append({'re-labelled data returned': res[5]})
    return probs


def _callsite_problems(scn, out, payloads):
    probs = []
    if not isinstance(out, dict) or 'sealing' not in out:
        return [{'replay': str(out)[:300]}]
    labels = out.get('labels', {})

    def name_of(segs):
        return ''.join(s if isinstance(s, str) else ('0' * 32 if s == 0 else str(labels.get(str(s['l']), '?'))) for s in segs)
    copies = set()
    for ph in scn['phases']:
        for t in ph.get('tweak', []):
            if 'copy' in t:
                copies.add(name_of(t['copy']['to']))
    for o in out['sealing']:
        if o['name'] in copies:
            continue          # the re-labelled copy made by the scenario itself
        if not o.get('opens') or o['opens'].get('with') != 'own':
            probs.append({'object not sealed in the documented form under its own version id': o})
        elif o['opens']['plain'] not in payloads:
            probs.append({'object opens to something else than what was handed over': o})
    if len(out['sealing']) < 2:
        probs.append({'objects': len(out['sealing'])})
    # the last sequential call is the read of the re-labelled object: it must fail
    last = [ph for ph in out['phases'] if isinstance(ph.get('results'), list) and ph['results']]
    if last and 'err' not in last[-1]['results'][-1] and len(scn['phases']) >= 3:
        probs.append({'re-labelled object returned': last[-1]['results'][-1]})
    return probs


def replay_scenario(v):
    return v['witness']['scenario']


def replay_judge(scn, out, v):
    if scn.get('backend') == 'http':
        p = _http_problems(scn, out, v['witness'].get('payloads', []))
        return bool(p), p[:4]
    if scn.get('kind') == 'seal':
        p = _seal_problems(scn, out)
    else:
        p = _callsite_problems(scn, out, v['witness'].get('payloads', []))
    return bool(p), p[:4]


def validate_samples(s, out):
    if s['scenario'].get('backend') == 'http':
        p = _http_problems(s['scenario'], out, s['predicted'].get('payloads', []))
        return (not p), p[:4]
    if s['scenario'].get('kind') == 'seal':
        p = _seal_problems(s['scenario'], out)
    else:
        p = _callsite_problems(s['scenario'], out, s['predicted'].get('payloads', []))
    return (not p), p[:4]


def required_covers(tier):
    return ['sealed layout checked', 'round trip', 'opened with identical context', 'rejected foreign context', 'tamper rejected: modify',
            'tamper rejected: truncate', 'relabelled object rejected', 'http: requests sealed and bound', 'http: round trip',
            'http: re-labelled data rejected: version body served as the child of another parent',
            "http: re-labelled data rejected: grandchild's body served as the child, labelled with the child's id",
            "http: re-labelled data rejected: child's body served under a foreign version id",
            'http: re-labelled data rejected: snapshot labelled with another version id',
            'http: re-labelled data rejected: version body served as the snapshot of its own id']


def configs(tier):
    return [dict(name='roundtrip', factory=lambda: CryptorHarness('roundtrip', 'rt'), bounds='payload 0-2 symbolic bytes, secret 1-2 bytes, salt 16 bytes, any version id'),
            dict(name='context', factory=lambda: CryptorHarness('context', 'cx'), bounds='a second Cryptor with symbolic salt/secret and a second symbolic version id: opens iff all three are equal'),
            dict(name='tamper', factory=lambda: CryptorHarness('tamper', 'tp'), bounds='every single-position modification, every truncation, one-byte extension, other envelope version bytes'),
            dict(name='call-sites', factory=lambda: CallSiteHarness('cs'), bounds='object-store server: one version and one snapshot stored, then a re-labelled copy'),
            dict(name='http-call-sites', factory=lambda: HttpCallSiteHarness('hcs'), mir='full',
                 bounds='HTTP client with a symbolic client id: two versions (payload 1-2 and 1 symbolic bytes) and one snapshot sent, read back, then one of five re-labelling answers of the server')]


ASSUMPTIONS = [
    'ring primitives idealised: PBKDF2 = injective function of (algorithm, iterations, salt, secret); AEAD open succeeds iff ciphertext+tag are exactly those of one seal call and key, nonce, AAD are equal (any modification or truncation rejected) — the textbook contracts; the primitives themselves (assembly/C behind FFI, 600000 HMAC iterations) cannot be executed symbolically',
    'claimed for the Rust-side construction (parameters, envelope layout, AAD, nonce freshness, round trip, rejection), for the object-store call sites and for the HTTP call sites (reqwest modelled at its call boundary: a request is a record of method, url, headers and body; the replay runs the scenario through ServerConfig::Remote with the real reqwest and the real primitives against an in-process sync server, which opens every body it received with the independent implementation of the documented construction); the git call sites are not executed',
    'a snapshot of version V and the history segment whose parent is V are both bound to V by the documented scheme; serving one as the other is not distinguishable by the binding and is not attempted',
    'replay: the solver model (salt, secret, version id, payload, tampering) is run on the compiled Cryptor through the hook and judged against an independent implementation of the documented construction written directly on ring in the replay binary (real PBKDF2 / ChaCha20-Poly1305); object-store call sites: every stored object must open under its own version id with that reference',
]
EXPLANATION = ('salt, secret, version ids, payload and tampered bytes are z3 terms; the recorded KDF/AEAD calls are compared with the '
               'documented constants written independently in the harness; z3 must refute: wrong parameters or layout, stale nonce, '
               'AAD not binding the version id, round-trip failure, acceptance under any differing secret/salt/version id, acceptance '
               'of any modified/truncated/extended value, plaintext or unbound objects in the store')
