"""C18 — reading tasks never panics, whatever the stored data.

Real code: every read accessor of Task, TaskData, WorkingSet, DependencyMap and the read methods of Replica,
executed on a symbolic stored task: recognised keys and prefixes with suffixes from edge-case lists, values
that are the decimal rendering of an arbitrary symbolic integer or edge-case strings.  Every panic
terminator of the MIR (assert, unreachable!, unwrap/expect on the empty case, index/slice out of range,
arithmetic overflow) raises Panic in the interpreter; the query is whether any is reachable."""
import z3

from mirsym.explore import PathAbort, Panic
from mirsym.parser import Unsupported
from mirsym.values import Adt, clone_val, PyMap, PyVec, Some, NONE, mkref, NumStr, SegStr, Ref, deref
from mirsym.models.core import val_eq
from mirsym.models.iterators import Iter, drain_all, to_iter
from .common import get_interp, show, dt
from .localworld import LocalWorld

PROPERTY = 'C18'
LEVEL = 'other'

TS_PROPS = ['due', 'wait', 'entry', 'modified', 'start', 'end']
JUNK_NUM = ['', 'abc', '12x', ' 12', '+5', '007', '-0', '1e5', '１２', '99999999999999999999', '-99999999999999999999', '9223372036854775807', '-9223372036854775808']
STATUS_VALUES = ['pending', 'completed', 'deleted', 'recurring', 'bogus', '', 'PENDING']
TAG_SUFFIX = ['abc', '', '1abc', 'a:b', 'PENDING', 'WAITING', 'NOSUCH', 'été', 'a b', '+x', 'x+', ' ']
DEP_OTHER = '00000000-0000-0000-0000-0000000000c8'      # uuid of the second task (200)
DEP_SUFFIX = [DEP_OTHER, '000000000000000000000000000000c8', DEP_OTHER.upper(), 'not-a-uuid', '', '00000000-0000-0000-0000-00000000000g', DEP_OTHER + 'x',
              '{' + DEP_OTHER + '}', 'urn:uuid:' + DEP_OTHER]
UDA_KEYS = ['foo', 'ns.key', '.x', 'a..b', '', 'tag', 'dep', 'annotation', 'Status']


def uuid_str(n):
    h = '%032x' % n
    return '-'.join([h[:8], h[8:12], h[12:16], h[16:20], h[20:]])


class Harness:
    def __init__(self, name, groups):
        self.I = get_interp()
        self.name, self.groups = name, groups

    def run_path(self, ctx):
        c, I = ctx, self.I
        w = LocalWorld(I, ctx, (), ())
        now = c.fresh_int('now', 0, 4_000_000_000)
        I.env['now'] = lambda I2: dt(now, 0)
        tasks = w.tasks()
        A, B = 100, 200
        tm = PyMap([])
        desc = {}

        def sym_int():
            return c.fresh_int('num', -10 ** 30, 10 ** 30)

        def num_or_junk(label):
            k = c.choose(1 + len(JUNK_NUM), label)
            return NumStr(sym_int()) if k == 0 else JUNK_NUM[k - 1]
        if 'status' in self.groups:
            k = c.choose(1 + len(STATUS_VALUES), 'status')
            if k:
                tm.items.append(['status', STATUS_VALUES[k - 1]])
        if 'time' in self.groups:
            p = TS_PROPS[c.choose(len(TS_PROPS), 'time-prop')]
            tm.items.append([p, num_or_junk('time-value')])
        if 'tag' in self.groups:
            tm.items.append(['tag_' + TAG_SUFFIX[c.choose(len(TAG_SUFFIX), 'tag')], ''])
        if 'annotation' in self.groups:
            v = num_or_junk('annotation-key')
            key = SegStr(['annotation_', ('num', v.v)]) if isinstance(v, NumStr) else 'annotation_' + v
            tm.items.append([key, 'note'])
        if 'dep' in self.groups:
            tm.items.append(['dep_' + DEP_SUFFIX[c.choose(len(DEP_SUFFIX), 'dep')], ''])
        if 'uda' in self.groups:
            tm.items.append([UDA_KEYS[c.choose(len(UDA_KEYS), 'uda')], 'v'])
        tasks.items.append([A, tm])
        # the other task (dependency target / working-set neighbour): pending, without a status, completed, or missing
        bshape = ['pending', 'no-status', 'completed', 'missing'][c.choose(4, 'other-task')] if 'dep' in self.groups else 'pending'
        if bshape != 'missing':
            bm = PyMap([['description', 'other']])
            if bshape != 'no-status':
                bm.items.append(['status', bshape])
            tasks.items.append([B, bm])
        ws = w.working_set_of(w.db)
        if c.choose(2, 'in-working-set'):
            ws.items.append(Some(A))
        ws.items.append(Some(B))

        def wit(m):
            return {'task': {show(k if not isinstance(k, SegStr) else concrete_key(k, m), m): (conc(v, m)) for k, v in tm.items},
                    'working_set': [x.fields[0] if x.variant else None for x in ws.items], 'now': show(now, m), 'other': bshape}
        called = []

        def guard(name, thunk):
            called.append(name)
            c.stats['obligations'] += 1
            try:
                r = thunk()
                c.stats['discharged'] += 1
                return r
            except Panic as p:
                c.prove(False, 'a read accessor panicked: ' + name, wit, {'class': 'panic', 'reader': name, 'msg': p.msg[:160]})
                raise PathAbort()

        def drain(v):
            v = deref(v) if isinstance(v, Ref) else v
            if isinstance(v, Iter):
                return drain_all(I, v)
            return drain_all(I, to_iter(I, v))
        rep = mkref(w.rep)
        # --- Replica readers
        r = guard('Replica::get_task', lambda: I.block_on(I.call('Replica::get_task', [rep, A])))
        task = r.fields[0].fields[0]
        guard('Replica::all_tasks', lambda: I.block_on(I.call('Replica::all_tasks', [rep])))
        guard('Replica::all_task_data', lambda: I.block_on(I.call('Replica::all_task_data', [rep])))
        guard('Replica::all_task_uuids', lambda: I.block_on(I.call('Replica::all_task_uuids', [rep])))
        guard('Replica::pending_tasks', lambda: I.block_on(I.call('Replica::pending_tasks', [rep])))
        guard('Replica::pending_task_data', lambda: I.block_on(I.call('Replica::pending_task_data', [rep])))
        wsr = guard('Replica::working_set', lambda: I.block_on(I.call('Replica::working_set', [rep])))
        dm = guard('Replica::dependency_map', lambda: I.block_on(I.call('Replica::dependency_map', [rep, True])))
        guard('Replica::get_task_data', lambda: I.block_on(I.call('Replica::get_task_data', [rep, A])))
        guard('Replica::get_task_operations', lambda: I.block_on(I.call('Replica::get_task_operations', [rep, A])))
        guard('Replica::num_local_operations', lambda: I.block_on(I.call('Replica::num_local_operations', [rep])))
        guard('Replica::num_undo_points', lambda: I.block_on(I.call('Replica::num_undo_points', [rep])))
        guard('Replica::get_undo_operations', lambda: I.block_on(I.call('Replica::get_undo_operations', [rep])))
        # --- WorkingSet readers
        wso = mkref(wsr.fields[0])
        for meth in ('len', 'largest_index', 'is_empty'):
            guard('WorkingSet::' + meth, lambda meth=meth: I.call('WorkingSet::' + meth, [wso]))
        for i in (0, 1, 2, 7):
            guard('WorkingSet::by_index', lambda i=i: I.call('WorkingSet::by_index', [wso, i]))
        for u in (A, B, 999):
            guard('WorkingSet::by_uuid', lambda u=u: I.call('WorkingSet::by_uuid', [wso, u]))
        guard('WorkingSet::iter', lambda: drain(I.call('WorkingSet::iter', [wso])))
        # --- DependencyMap readers
        dmo = dm.fields[0]
        dmr = dmo if isinstance(dmo, Ref) else mkref(deref(dmo))
        for u in (A, B):
            guard('DependencyMap::dependencies', lambda u=u: drain(I.call('DependencyMap::dependencies', [dmr, u])))
            guard('DependencyMap::dependents', lambda u=u: drain(I.call('DependencyMap::dependents', [dmr, u])))
        # --- Task readers
        t = mkref(task)
        for meth in ('get_uuid', 'get_status', 'get_description', 'get_entry', 'get_priority', 'get_wait', 'is_waiting', 'is_active',
                     'is_blocked', 'is_blocking', 'get_modified', 'get_due'):
            guard('Task::' + meth, lambda meth=meth: I.call('Task::' + meth, [t]))
        tags = guard('Task::get_tags', lambda: drain(I.call('Task::get_tags', [t])))
        for tg in tags:
            guard('Task::has_tag', lambda tg=tg: I.call('Task::has_tag', [t, mkref(tg)]))
        guard('Task::get_annotations', lambda: drain(I.call('Task::get_annotations', [t])))
        guard('Task::get_udas', lambda: drain(I.call('Task::get_udas', [t])))
        guard('Task::get_user_defined_attributes', lambda: drain(I.call('Task::get_user_defined_attributes', [t])))
        guard('Task::get_legacy_udas', lambda: drain(I.call('Task::get_legacy_udas', [t])))
        guard('Task::get_dependencies', lambda: drain(I.call('Task::get_dependencies', [t])))
        for key in ('status', 'due', 'foo', 'ns.key', 'tag_abc', ''):
            guard('Task::get_value', lambda key=key: I.call('Task::get_value', [t, key]))
            guard('Task::get_user_defined_attribute', lambda key=key: I.call('Task::get_user_defined_attribute', [t, key]))
            guard('Task::get_legacy_uda', lambda key=key: I.call('Task::get_legacy_uda', [t, key]))
            guard('Task::get_timestamp', lambda key=key: I.call('Task::get_timestamp', [t, key]))
        guard('Task::get_uda', lambda: I.call('Task::get_uda', [t, 'ns', 'key']))
        guard('Task::get_taskmap', lambda: I.call('Task::get_taskmap', [t]))
        # --- TaskData readers
        td = mkref(task.fields[0])
        guard('TaskData::get_uuid', lambda: I.call('TaskData::get_uuid', [td]))
        for key in ('status', 'nope'):
            guard('TaskData::get', lambda key=key: I.call('TaskData::get', [td, key]))
            guard('TaskData::has', lambda key=key: I.call('TaskData::has', [td, key]))
        guard('TaskData::properties', lambda: drain(I.call('TaskData::properties', [td])))
        guard('TaskData::iter', lambda: drain(I.call('TaskData::iter', [td])))
        c.cover('all readers returned')
        if any(isinstance(v, NumStr) for _, v in tm.items) or any(isinstance(k, SegStr) for k, _ in tm.items):
            c.cover('symbolic integer value read')
        out = {'keys': [repr(k)[:30] for k, _ in tm.items], 'readers_called': len(called)}
        if c.want_sample:
            m = c.get_model()
            if m is not None:
                out['scenario'] = dict(wit(m), kind='model', what='task_readers')
                out['predicted'] = {'panics': []}
                out['_encoded'] = sorted(I.encoded)
                out['_modelled'] = sorted(I.modelled)
        return out


def conc(v, m):
    if isinstance(v, NumStr):
        return str(m.eval(v.v, model_completion=True).as_long())
    return v


def concrete_key(k, m):
    out = ''
    for s in k.segs:
        out += s if isinstance(s, str) else str(m.eval(s[1], model_completion=True).as_long())
    return out


def replay_scenario(v):
    return dict(v['witness'], kind='model', what='task_readers')


def replay_judge(scn, out, v):
    if 'panic' in out:
        return True, [{'panic': out['panic']}]
    p = out.get('panics', [])
    return bool(p), p[:4]


def validate_samples(sample, out):
    if out.get('panics') or 'panic' in out:
        return False, {'unexpected_panic_on_real_code': out, 'task': sample['scenario'].get('task')}
    return True, None


def required_covers(tier):
    return ['all readers returned', 'symbolic integer value read']


def configs(tier):
    if tier == 'quick':
        return [dict(name='status+time', factory=lambda: Harness('st', ('status', 'time')),
                     bounds='status: absent or one of 7 strings; one of 6 timestamp properties holding the decimal rendering of any integer in +-10^30 (symbolic) or one of 13 edge strings; symbolic clock; all readers'),
                dict(name='tag+annotation', factory=lambda: Harness('ta', ('tag', 'annotation')),
                     bounds='one tag_ key out of 12 suffixes and one annotation_ key whose suffix is a symbolic integer or an edge string'),
                dict(name='dep+uda', factory=lambda: Harness('du', ('dep', 'uda')),
                     bounds='one dep_ key out of 9 suffixes (valid / simple / upper-case / malformed uuid), the target task pending / without status / completed / missing, and one UDA key out of 9')]
    return [dict(name='status+time+annotation', factory=lambda: Harness('sta', ('status', 'time', 'annotation')),
                 bounds='status, one timestamp property and one annotation key at once (values as in the quick tier)', time_limit_s=3300),
            dict(name='status+tag+dep+uda', factory=lambda: Harness('stdu', ('status', 'tag', 'dep', 'uda')),
                 bounds='status, one tag, one dependency (all target shapes) and one UDA key at once', time_limit_s=3300),
            dict(name='time+dep', factory=lambda: Harness('td', ('time', 'dep')),
                 bounds='one timestamp property and one dependency at once', time_limit_s=3300)]


ASSUMPTIONS = [
    'stored values: decimal renderings of symbolic integers in +-10^30 (digit strings and integers are in bijection, so parse stays in integer arithmetic) or strings from the edge-case lists in harness/c18.py; arbitrary other Unicode strings are outside the bound',
    'chrono: timestamp_opt / from_timestamp are total with valid range [-8334601228800, 8210266876799] seconds (validated on the real library by the Kani harness k_chrono_range)',
    'in-memory storage; HashMap as association list',
]
EXPLANATION = ('key shapes forked from edge-case lists; numeric contents and the clock are z3 integers, so "parses as i64 but outside '
               'chrono\'s range" is a solver choice; every panic terminator reachable from a read accessor is a violation')


# Engine K: validates on the compiled chrono that the range the MIR engine's chrono model uses is exact, and that the
# conversions the readers use are total (loop-free code: these hold for every i64, not only within a bound)
KANI = {
    'quick': [('k_chrono_range', 'SUCCESSFUL'), ('k_chrono_range_reach', 'FAILED'), ('k_timestamp_opt_total', 'SUCCESSFUL')],
    'thorough': [('k_chrono_range', 'SUCCESSFUL'), ('k_chrono_range_reach', 'FAILED'), ('k_timestamp_opt_total', 'SUCCESSFUL'),
                 ('k_timestamp_opt_total_reach', 'FAILED'), ('k_utc_timestamp_in_range', 'SUCCESSFUL'), ('k_utc_timestamp_in_range_reach', 'FAILED')],
}
