"""C14 — what is sent to the server is the documented operation format only, and a version written in that format by
another implementation is applied correctly (inbound direction: the derive-generated Deserialize visitors are executed).

The crate's derive-generated Serialize impls for SyncOp and Version are executed against a model
serializer that records the abstract JSON document; the document that reaches the Server trait in a real
sync is compared with an independent statement of docs/src/sync-protocol.md."""
import z3

from mirsym.explore import PathAbort, Panic
from mirsym.values import Adt, PyVec, PyMap, TokStr, Some, NONE, clone_val
from mirsym.models.core import val_eq, z_and, z_all
from mirsym.models import extern
from .common import get_interp, tasks_eq, show, dt
from .syncworld import SyncWorld

PROPERTY = 'C14'
LEVEL = 'other'


def documented_op_doc(op):
    """docs/src/sync-protocol.md: {"Create":{"uuid":U}} | {"Delete":{"uuid":U}} |
    {"Update":{"uuid":U,"property":P,"value":V|null,"timestamp":T}} for a local Operation; None for UndoPoint"""
    v = op.variant
    if v == 3:
        return None
    u = op.fields[0]
    if v == 0:
        return ('obj', [('Create', ('obj', [('uuid', ('uuid', u))]))])
    if v == 1:
        return ('obj', [('Delete', ('obj', [('uuid', ('uuid', u))]))])
    prop, old, val, ts = op.fields[1], op.fields[2], op.fields[3], op.fields[4]
    return ('obj', [('Update', ('obj', [('uuid', ('uuid', u)), ('property', ('str', prop)),
                                        ('value', ('str', val.fields[0]) if val.variant == 1 else ('null',)),
                                        ('timestamp', ('rfc3339', ts))]))])


def doc_matches(sent, exp):
    """sent document has exactly the expected keys (any order) and values; returns bool / z3 formula"""
    if sent[0] != exp[0]:
        return False
    if exp[0] == 'obj':
        if len(sent[1]) != len(exp[1]):
            return False
        res = True
        for k, ev in exp[1]:
            hit = [sv for sk, sv in sent[1] if not isinstance(sk, tuple) and sk == k]
            if len(hit) != 1:
                return False
            res = z_and(res, doc_matches(hit[0], ev))
            if res is False:
                return False
        return res
    if exp[0] == 'arr':
        if len(sent[1]) != len(exp[1]):
            return False
        return z_all(doc_matches(a, b) for a, b in zip(sent[1], exp[1]))
    if exp[0] == 'null':
        return True
    return val_eq(sent[1], exp[1])


class Harness:
    def __init__(self, nops, props, name):
        self.I = get_interp()
        self.nops, self.props, self.name = nops, props, name

    def run_path(self, ctx):
        c, I = ctx, self.I
        w = SyncWorld(I, ctx, 1, (1, 2), self.props)
        # a populated task, synced, so that deletes carry old contents and updates carry old values
        w.force_op = ('create', 1, None)
        w.do_commit(0, 1, allow_delete=False)
        w.force_op = ('set', 1, self.props[0])
        w.do_commit(0, 1)
        w.do_sync(0)
        nchain0 = len(w.server.chain)
        committed = []
        for i in range(self.nops):
            k = c.choose(2, 'undo-point?')
            if k:
                up = I.mk_enum('Operation', 'UndoPoint', [])
                res = w.commit(w.dbs[0], [up])
                w.history.append({'commit': 0, 'ops': [{'op': 'undopoint'}]})
                committed.append(up)
                c.cover('undo point committed')
            ops = w.do_commit(0, 1)
            committed.extend(clone_val(o) for o in ops)
            if ops[0].variant == 1 and ops[0].fields[1].items:
                c.cover('delete of a populated task')
            if ops[0].variant == 2 and ops[0].fields[2].variant == 1:
                c.cover('update carrying an old value')
        w.do_sync(0)
        # what reached the Server trait
        sent_ops = []
        for parent, vid, payload in w.server.chain[nchain0:]:
            js = payload.payload
            doc = js.doc
            if not (doc[0] == 'obj' and len(doc[1]) == 1 and doc[1][0][0] == 'operations' and doc[1][0][1][0] == 'arr'):
                c.prove(False, 'version is not {"operations": [...]}', w.witness, {'class': 'version-shape', 'doc': repr(doc)[:300]})
                return None
            sent_ops.extend(doc[1][0][1][1])
        expected = [d for d in (documented_op_doc(o) for o in committed) if d is not None]
        if len(sent_ops) != len(expected):
            c.prove(False, 'number of operations sent differs from the operations committed (minus undo points)', w.witness,
                    {'class': 'op-count', 'sent': len(sent_ops), 'expected': len(expected)})
            return None
        for i, (s, e) in enumerate(zip(sent_ops, expected)):
            if not c.prove(doc_matches(s, e), 'operation sent is not the documented form of the committed operation', w.witness,
                           {'class': 'op-shape', 'index': i, 'sent': repr(s)[:300], 'expected': repr(e)[:300]}):
                return None
        if len(w.server.chain) - nchain0 >= 2:
            c.cover('several versions')
        out = w.sample({'sent': len(sent_ops)})
        if 'predicted' in out:
            m = c.get_model()
            out['predicted']['docs'] = [concrete_doc(s, m) for s in sent_ops]
            out['predicted']['setup_versions'] = nchain0
        return out



PERMS = [(0, 1, 2, 3), (3, 2, 1, 0), (1, 2, 3, 0), (2, 3, 0, 1), (3, 0, 1, 2), (1, 0, 3, 2)]
UPDATE_FIELDS = ('uuid', 'property', 'value', 'timestamp')
FORMS = ['auto-Z', 'millis-Z', 'offset']


class InboundHarness:
    """a version written by another implementation in the documented format (docs/src/sync-protocol.md): operations of all
    kinds, `value` a string or null, the fields of an Update in other orders than this implementation emits.  The real
    `Deserialize` impls of Version / SyncOp (visit_map, visit_enum, the identifier visitors) run on the document inside a
    real sync of an empty replica; the replica must end in the state the documented meaning of the operations gives"""

    def __init__(self, nops, name):
        self.I = get_interp()
        self.nops, self.name = nops, name

    def run_path(self, ctx):
        from mirsym.models import serde_de
        from mirsym.values import Bytes
        from .common import ref_apply
        c, I = ctx, self.I
        w = SyncWorld(I, ctx, 1, (1, 2), ('p', 'q'))
        I.env['json_decode'] = serde_de.deserialize_document
        descs, docs, meaning = [], [], []
        # the version starts by creating task 1, so that the symbolic operations that follow act on an existing task
        docs.append(('obj', [('Create', ('obj', [('uuid', ('uuid', 1))]))]))
        meaning.append(I.mk_enum('SyncOp', 'Create', [1]))
        descs.append({'kind': 'Create', 'uuid': 1})
        for i in range(self.nops):
            kind = ['Create', 'Delete', 'Update', 'Update-null'][c.choose(4, 'kind')]
            u = [1, 2][c.choose(2, 'uuid')]
            if kind in ('Create', 'Delete'):
                docs.append(('obj', [(kind, ('obj', [('uuid', ('uuid', u))]))]))
                meaning.append(I.mk_enum('SyncOp', kind, [u]))
                descs.append({'kind': kind, 'uuid': u})
            else:
                prop = ['p', 'q'][c.choose(2, 'prop')]
                val = None if kind == 'Update-null' else 'x%d' % i
                ts = w.fresh_ts()
                # the timestamp text: this implementation's own form, fixed milliseconds (".000Z", JavaScript) or a numeric
                # offset ("+00:00", Python) — all RFC 3339 UTC renderings of the same whole-second instant
                form = FORMS[c.choose(len(FORMS), 'timestamp-form')]
                if form != 'auto-Z':
                    c.cover('inbound: timestamp written in another RFC 3339 form')
                fields = {'uuid': ('uuid', u), 'property': ('str', prop), 'value': ('str', val) if val is not None else ('null',),
                          'timestamp': ('rfc3339', dt(ts), form)}
                perm = PERMS[c.choose(len(PERMS), 'field-order')]
                order = [UPDATE_FIELDS[k] for k in perm]
                docs.append(('obj', [('Update', ('obj', [(k, fields[k]) for k in order]))]))
                meaning.append(I.mk_enum('SyncOp', 'Update', [u, prop, Some(val) if val is not None else NONE(), dt(ts)]))
                descs.append({'kind': 'Update', 'uuid': u, 'prop': prop, 'value': val, 'ts': ts, 'order': order, 'form': form})
                if perm != PERMS[0]:
                    c.cover('inbound: fields of an Update in another order')
                if val is None:
                    c.cover('inbound: null value')
        doc = ('obj', [('operations', ('arr', docs))])
        js = extern.JsonStr(doc, 0)
        w.server.chain.append((0, w.new_version_id(), Bytes('json', js)))

        def wit(m):
            return {'replicas': 1, 'kind': 'sync', 'preload': [foreign_text(descs, m)], 'steps': [{'sync': 0}],
                    'inbound': [{k: (show(x, m) if k == 'ts' else x) for k, x in d.items()} for d in descs]}
        c.panic_witness = wit          # a panic inside the sync (e.g. an unwrap on the parse result) is reported with the foreign text
        res = w.sync(w.dbs[0], w.server, client=0)
        if res.variant != 0:
            c.prove(False, 'a version in the documented format written by another implementation was rejected', wit, {'class': 'inbound-rejected', 'err': repr(res)[:200]})
            return None
        exp = []
        for o in meaning:
            ref_apply(I, exp, clone_val(o))
        if not c.prove(tasks_eq(w.replica_tasks(0), exp), 'a version in the documented format written by another implementation was misapplied', wit, {'class': 'inbound-misapplied'}):
            return None
        c.cover('inbound: foreign version applied')
        out = {'inbound': [d['kind'] for d in descs]}
        if c.want_sample:
            m = c.get_model()
            if m is not None:
                out['scenario'] = wit(m)
                out['predicted'] = {'inbound_tasks': w.concrete_tasks(0, m)}
            out['_encoded'] = sorted(I.encoded)
            out['_modelled'] = sorted(I.modelled)
        return out


def foreign_text(descs, m):
    """the JSON text another implementation would write: compact, keys in the chosen order, RFC 3339 UTC timestamps"""
    import datetime
    import json

    def ev(t):
        return t if isinstance(t, int) else m.eval(t, model_completion=True).as_long()

    def uu(n):
        h = '%032x' % n
        return '-'.join([h[:8], h[8:12], h[12:16], h[16:20], h[20:]])
    ops = []
    for d in descs:
        if d['kind'] != 'Update':
            ops.append('{"%s":{"uuid":"%s"}}' % (d['kind'], uu(d['uuid'])))
            continue
        t = datetime.datetime.fromtimestamp(ev(d['ts']), datetime.timezone.utc).strftime('%Y-%m-%dT%H:%M:%S')
        t += {'auto-Z': 'Z', 'millis-Z': '.000Z', 'offset': '+00:00'}[d.get('form', 'auto-Z')]
        f = {'uuid': json.dumps(uu(d['uuid'])), 'property': json.dumps(d['prop']), 'value': json.dumps(d['value']), 'timestamp': json.dumps(t)}
        ops.append('{"Update":{%s}}' % ','.join('"%s":%s' % (k, f[k]) for k in d['order']))
    return '{"operations":[%s]}' % ','.join(ops)


def _inbound_expected(scn):
    """documented meaning of the foreign version, computed from the descriptors (independent of the crate)"""
    tasks = {}
    for d in scn.get('inbound', []):
        u = str(d['uuid'])
        if d['kind'] == 'Create':
            tasks.setdefault(u, {})
        elif d['kind'] == 'Delete':
            tasks.pop(u, None)
        elif u in tasks:
            if d['value'] is None:
                tasks[u].pop(d['prop'], None)
            else:
                tasks[u][d['prop']] = d['value']
    return tasks

def concrete_doc(d, m):
    """abstract document -> the JSON value the real serde_json would produce (for replay comparison)"""
    k = d[0]
    if k == 'obj':
        return {(kk if not isinstance(kk, tuple) else str(kk)): concrete_doc(v, m) for kk, v in d[1]}
    if k == 'arr':
        return [concrete_doc(x, m) for x in d[1]]
    if k == 'null':
        return None
    if k == 'str':
        v = d[1]
        if isinstance(v, TokStr):
            from mirsym.values import STRLEN
            ln = m.eval(STRLEN(v.id), model_completion=True).as_long()
            return '' if ln == 0 else {'id': m.eval(v.id, model_completion=True).as_long(), 'len': ln}
        return v
    if k == 'uuid':
        u = d[1]
        n = u if isinstance(u, int) else m.eval(u, model_completion=True).as_long()
        h = '%032x' % n
        return '-'.join([h[:8], h[8:12], h[12:16], h[16:20], h[20:]])
    if k == 'rfc3339':
        secs = d[1].fields[0]
        return {'ts': secs if isinstance(secs, int) else m.eval(secs, model_completion=True).as_long()}
    return repr(d)


def replay_scenario(v):
    return dict(v['witness'], kind='sync')


def _norm_real(doc):
    if isinstance(doc, dict):
        if set(doc.keys()) == {'id', 'len'}:
            return doc
        return {k: (_norm_ts(x) if k == 'timestamp' else _norm_real(x)) for k, x in doc.items()}
    if isinstance(doc, list):
        return [_norm_real(x) for x in doc]
    return doc


def _norm_ts(s):
    import datetime
    if isinstance(s, str):
        t = s.replace('Z', '+00:00')
        try:
            return {'ts': int(datetime.datetime.fromisoformat(t).timestamp())}
        except Exception:  # noqa
            return s
    return s


def replay_judge(scn, out, v):
    if 'preload' in scn:
        if 'panic' in out:
            return True, [{'panic': out['panic']}]
        errs = [st for st in out.get('steps', []) if 'err' in st]
        real = out['replicas'][0]['tasks'] if out.get('replicas') else None
        exp = _inbound_expected(scn)
        bad = bool(errs) or real != exp
        return bad, [{'sync': errs[:1], 'replica': real, 'documented meaning': exp}]
    # judge the real bytes: every op is one of the three documented objects with exactly the documented keys
    probs = []
    if 'panic' in out:
        return True, [{'panic': out['panic']}]
    # versions of the set-up sync (a large symbolic value may have split it into two) are judged as well: no [1:] cut
    for ver in out['server']['versions']:
        doc = ver['doc']
        if not isinstance(doc, dict) or set(doc.keys()) != {'operations'}:
            probs.append({'version_keys': sorted(doc.keys())})
            continue
        for op in doc['operations']:
            if not isinstance(op, dict) or len(op) != 1:
                probs.append({'op': op})
                continue
            (k, body), = op.items()
            want = {'Create': {'uuid'}, 'Delete': {'uuid'}, 'Update': {'uuid', 'property', 'value', 'timestamp'}}.get(k)
            if want is None or not isinstance(body, dict) or set(body.keys()) != want:
                probs.append({'op': op})
    # ... and, in order, exactly the committed operations (minus undo points), each in its documented form
    expected = []
    for st in scn.get('steps', []):
        for o in st.get('ops', []) if 'commit' in st else []:
            if o['op'] == 'undopoint':
                continue
            h = '%032x' % o['uuid']
            u = '-'.join([h[:8], h[8:12], h[12:16], h[16:20], h[20:]])
            if o['op'] == 'create':
                expected.append({'Create': {'uuid': u}})
            elif o['op'] == 'delete':
                expected.append({'Delete': {'uuid': u}})
            else:
                expected.append({'Update': {'uuid': u, 'property': o['prop'], 'value': o.get('value'), 'timestamp': {'ts': o.get('ts')}}})
    real = []
    for ver in out['server']['versions']:
        d = _norm_real(ver['doc'])
        real.extend(d.get('operations', []) if isinstance(d, dict) else [])
    if not probs and real != expected:
        probs.append({'sent': real[:6], 'committed': expected[:6]})
    return bool(probs), probs[:3]


def validate_samples(sample, out):
    if 'inbound_tasks' in sample['predicted']:
        real = out['replicas'][0]['tasks'] if out.get('replicas') else None
        if real != sample['predicted']['inbound_tasks'] or real != _inbound_expected(sample['scenario']):
            return False, {'predicted': sample['predicted']['inbound_tasks'], 'real': real}
        return True, None
    real = []
    for ver in out['server']['versions'][sample['predicted'].get('setup_versions', 1):]:
        real.extend(_norm_real(ver['doc']).get('operations', []))
    pred = sample['predicted'].get('docs')
    if pred is not None and real != pred:
        return False, {'predicted': pred, 'real': real}
    return True, None


def required_covers(tier):
    return ['undo point committed', 'delete of a populated task', 'update carrying an old value',
            'inbound: foreign version applied', 'inbound: fields of an Update in another order', 'inbound: null value',
            'inbound: timestamp written in another RFC 3339 form']


def configs(tier):
    if tier == 'quick':
        return [dict(name='wire', factory=lambda: Harness(2, ('p', 'q'), 'q'),
                     bounds='one replica, 2 committed operations (each optionally preceded by an undo point) after a populated synced task; 2 task ids, 2 properties'),
                dict(name='inbound', factory=lambda: InboundHarness(2, 'iq'),
                     bounds='a foreign version of a Create followed by 2 operations (Create / Delete / Update with a string / Update with null; 2 task ids, 2 properties; 6 field orders and 3 RFC 3339 text forms (Z, .000Z, +00:00) per Update; symbolic whole-second timestamps) pulled by an empty replica')]
    return [dict(name='wire-3', factory=lambda: Harness(3, ('p', 'q'), 't'),
                 bounds='3 committed operations with optional undo points', time_limit_s=3000),
            dict(name='inbound-3', factory=lambda: InboundHarness(3, 'it'), bounds='a foreign version of a Create followed by 3 operations, as quick', time_limit_s=3000)]


ASSUMPTIONS = [
    'inbound direction: the derive-generated Deserialize impls of Version and SyncOp (visit_map, visit_enum, identifier visitors) are executed on an abstract document against a model of serde\'s Deserializer protocol; serde_json\'s text parser and the uuid / chrono / std Deserialize impls of the leaf types are external and modelled (a JSON string holding a uuid / an RFC 3339 instant yields that uuid / instant): timestamp precisions and offset forms are therefore outside the symbolic claim; the replay feeds the concrete JSON text (field order as chosen) to the compiled crate through a pre-loaded server',
    'byte-level JSON and RFC 3339 text are produced/parsed by serde_json and chrono (external crates)',
    'the model serializer implements serde\'s Serializer protocol for the calls the derive output makes (struct_variant/field/end, struct, seq, str, none/some)',
    'the replay compares the abstract documents with the real serde_json bytes on sampled paths (translator validation)',
]
EXPLANATION = ('the real Serialize impls emit an abstract document per version; z3 must refute any difference between it and the '
               'independent documented form of the committed operations (order, kinds, uuid/property/value/timestamp, null for '
               'removal, no undo points, no old values, no old task contents)')
