"""Shared harness pieces: replicas over the real (interpreted) InMemoryStorage, a protocol-correct
reference Server model, symbolic operation generators, reference semantics and state comparison."""
import z3

from mirsym.interp import Interp
from mirsym.explore import PathAbort, Panic
from mirsym.parser import Unsupported
from mirsym.values import (Adt, LV, Ref, BoxV, PyVec, PyMap, TokStr, ZStr, Bytes, Opaque, STRLEN, Some, NONE, Ok, Err,
                           Tuple, UNIT, clone_val, deref, deref1, mkref, is_sym)
from mirsym.models.core import Ready, PendingOnce, val_eq, z_and, z_or, z_not, z_all, z_any
from mirsym.models import extern, strings

from verif_lib import build as _build
MIR = _build.os.path.join(_build.BUILD, 'crate.mir')
_INTERP = {}


# modules that are thin wrappers over FFI and are never instantiated by a harness; their impls are kept out of
# trait-method resolution in the 'full' dump (sqlite's Txn vs. the in-memory Txn)
FULL_EXCLUDE = r'src/storage/(sqlite/inner|send_wrapper/)'


def get_interp(mir=None, variant='core'):
    if mir is None:
        mir = MIR if variant == 'core' else _build.mir_path(variant)
    if mir not in _INTERP:
        _INTERP[mir] = Interp(mir, repo=_build.REPO, exclude_files=FULL_EXCLUDE if variant != 'core' else None)
    return _INTERP[mir]


def dt(secs, nanos=0):
    return Adt('DateTime', 0, [secs, nanos])


# ----------------------------------------------------------------------------- model Server (reference chain semantics)

class ModelServer:
    """A protocol-correct server: accepts a version only on top of the latest one (any parent when the chain is
    empty), otherwise names the latest; returns children byte-for-byte; keeps one snapshot."""
    rust_type = 'ModelServer'

    def __init__(self, world, concurrent=False):
        self.w = world
        self.chain = []            # [(parent, vid, payload)]
        self.snapshot = None       # (vid, payload)
        self.snapshots_received = []
        self.requests = []         # log of (who, kind, ...)
        self.concurrent = concurrent
        self.fault = None          # hook(I, kind, idx) -> None | 'err_before' | 'err_after'
        self.nreq = 0
        self.urgency = None        # hook(I) -> SnapshotUrgency variant index

    def latest(self):
        return self.chain[-1][1] if self.chain else 0

    def rust_call(self, trait, meth):
        fn = getattr(self, 'srv_' + meth, None)
        if fn is None:
            raise Unsupported('ModelServer::' + meth)

        def call(I, path, args):
            a = args[1:]
            self.nreq += 1
            idx = self.nreq
            kind = None
            if self.fault is not None:
                kind = self.fault(I, meth, idx)
            if kind == 'err_before':
                self.requests.append(('fault_before', meth))
                return self._fut(lambda I2: Err(I2.mk_enum('Error', 'Server', ['injected fault'])), meth)
            if kind == 'err_after':
                def th(I2):
                    fn(I2, *a)
                    self.requests.append(('fault_after', meth))
                    return Err(I2.mk_enum('Error', 'Server', ['injected fault (reply lost)']))
                return self._fut(th, meth)
            return self._fut(lambda I2: fn(I2, *a), meth)
        return call

    def _fut(self, thunk, label):
        if self.concurrent:
            return PendingOnce(thunk, label)
        return PendingOnce(thunk, label)   # served immediately when no scheduler is installed

    # --- Server trait
    def srv_add_version(self, I, parent, payload):
        # a version whose JSON text was assembled by hand is parsed here (documented JSON grammar)
        p0 = deref(payload)
        if isinstance(p0, Bytes) and type(p0.payload).__name__ == 'JsonText':
            payload = Bytes('json', p0.payload.parse())
        elif isinstance(p0, PyVec) and len(p0.items) == 1 and isinstance(p0.items[0], Bytes) and type(p0.items[0].payload).__name__ == 'JsonText':
            payload = PyVec([Bytes('json', p0.items[0].payload.parse())])
        self.requests.append(('add_version', parent, payload))
        I.ctx.cover('server:add_version')
        if self.chain:
            same = val_eq(parent, self.latest())
            if not I.ctx.branch(same):
                I.ctx.cover('server:expected_parent')
                return Ok(Tuple(I.mk_enum('AddVersionResult', 'ExpectedParentVersion', [self.latest()]),
                                I.mk_enum('SnapshotUrgency', 'None')))
        vid = self.w.new_version_id()
        self.chain.append((parent, vid, payload))
        self.w.version_owner[vid] = I.env.get('current_client')
        urg = self.urgency(I) if self.urgency else 0
        return Ok(Tuple(I.mk_enum('AddVersionResult', 'Ok', [vid]), Adt('SnapshotUrgency', urg, [])))

    def srv_get_child_version(self, I, parent):
        self.requests.append(('get_child_version', parent))
        for p, v, pl in self.chain:
            if I.ctx.branch(val_eq(p, parent)):
                return Ok(I.mk_enum('GetVersionResult', 'Version', [v, p, clone_val(pl)]))
        return Ok(I.mk_enum('GetVersionResult', 'NoSuchVersion'))

    def srv_add_snapshot(self, I, vid, payload):
        self.requests.append(('add_snapshot', vid, payload))
        self.snapshot = (vid, payload)
        self.snapshots_received.append((vid, payload, len(self.chain)))
        return Ok(UNIT())

    def srv_get_snapshot(self, I):
        self.requests.append(('get_snapshot',))
        if self.snapshot is None:
            return Ok(NONE())
        return Ok(Some(Tuple(self.snapshot[0], clone_val(self.snapshot[1]))))


# ----------------------------------------------------------------------------- world

class World:
    """per-path harness state"""

    def __init__(self, I, ctx, keep_env=False):
        self.I, self.ctx = I, ctx
        I.ctx = ctx
        if not keep_env:
            I.steps = 0
            I.env = {}
        self.nver = 0
        self.nclock = 0
        self.clock_terms = []
        self.script = []           # replayable scenario steps (python structures with z3 terms as leaves)
        self.version_owner = {}
        I.env['now'] = self.now
        I.env['json_decode'] = json_decode_lenient
        I.env['new_uuid'] = self.new_uuid
        self.nuuid = 0

    # -- hooks
    def now(self, I):
        """Utc::now(): an arbitrary valid instant per call (no monotonicity assumed)"""
        t = self.ctx.fresh_int('now', extern.CHRONO_MIN_SECS, extern.CHRONO_MAX_SECS)
        self.clock_terms.append(t)
        return dt(t, 0)

    def new_version_id(self):
        self.nver += 1
        return 1000 + self.nver

    def new_uuid(self, I):
        self.nuuid += 1
        return 5000 + self.nuuid

    # -- replicas over the real in-memory storage
    def new_storage(self):
        return self.I.call('InMemoryStorage::new', [])

    def new_taskdb(self):
        st = self.new_storage()
        return self.I.call('TaskDb::new', [st])

    def storage_of(self, db):
        return db.fields[0]

    def data_of(self, db):
        st = db.fields[0]
        return st.fields[0]

    def tasks_of(self, db):
        return self.data_of(db).fields[0]

    def base_version_of(self, db):
        return self.data_of(db).fields[1]

    def operations_of(self, db):
        return self.data_of(db).fields[2]

    def working_set_of(self, db):
        return self.data_of(db).fields[3]

    def unsynced_ops(self, db):
        return [t.fields[1] for t in self.operations_of(db).items if t.fields[0] is False]

    def commit(self, db, ops, add_to_ws=None):
        f = add_to_ws or (lambda I, op: False)
        fut = self.I.call('TaskDb::commit_operations', [mkref(db), PyVec(list(ops)), f])
        return self.I.block_on(fut)

    def sync_future(self, db, server_cell, avoid_snapshots=False):
        return self.I.call('TaskDb::sync', [mkref(db), Ref(LV(server_cell, 0)), avoid_snapshots])

    def sync(self, db, server, avoid_snapshots=False, client=None):
        self.I.env['current_client'] = client
        cell = [BoxV(server)]
        fut = self.sync_future(db, cell, avoid_snapshots)
        return self.I.block_on(fut)


# ----------------------------------------------------------------------------- JSON decoders

def json_decode_lenient(I, js, ty):
    """injective-codec assumption: from_str(to_string(v)) == v.  Used where the wire format is not the
    subject (C01-C04, C12); C14 uses the strict documented-format decoder instead."""
    if js.src is None:
        raise Unsupported('lenient decode of a document without source value')
    return Ok(clone_val(js.src))


# ----------------------------------------------------------------------------- reference semantics (docs/src/storage.md, sync-model.md)

def ref_apply(I, tasks, op):
    """documented operation rules on an association list [[uuid, PyMap]] with concrete-or-symbolic uuids.
    op is a SyncOp/Operation Adt (variants Create=0, Delete=1, Update=2; Operation::UndoPoint=3)."""
    from mirsym.models.containers import map_find
    v = op.variant
    if op.name == 'Operation' and v == 3:
        return
    u = op.fields[0]
    idx = None
    for i, ent in enumerate(tasks):
        if I.ctx.branch(val_eq(ent[0], u)):
            idx = i
            break
    if v == 0:
        if idx is None:
            tasks.append([u, PyMap([])])
    elif v == 1:
        if idx is not None:
            tasks.pop(idx)
    else:
        if idx is None:
            return
        tm = tasks[idx][1]
        prop = op.fields[1]
        if op.name == 'Operation':
            value = op.fields[3]
        else:
            value = op.fields[2]
        j = map_find(I, tm, prop)
        if value.variant == 1:
            if j is None:
                tm.items.append([prop, value.fields[0]])
            else:
                tm.items[j][1] = value.fields[0]
        elif j is not None:
            tm.items.pop(j)


def tasks_as_list(tasks_map):
    """PyMap uuid -> PyMap  ==> [[uuid, PyMap]] (shared, not cloned)"""
    return [[k, v] for k, v in tasks_map.items]


def tasks_eq(t1, t2):
    """equality of two task tables given as [[uuid, PyMap]] lists; formula (bool or z3)"""
    if len(t1) != len(t2):
        return False
    res = True
    for u, m in t1:
        alts = [z_and(val_eq(u, u2), val_eq(m, m2)) for u2, m2 in t2]
        res = z_and(res, z_any(alts))
        if res is False:
            return False
    return res


def show(v, model=None):
    """render a value for samples / witnesses (z3 terms evaluated in the model when given)"""
    v = deref(v)
    if isinstance(v, Adt):
        return {'_': f'{v.name}#{v.variant}', 'f': [show(x, model) for x in v.fields]}
    if isinstance(v, PyVec):
        return [show(x, model) for x in v.items]
    if isinstance(v, PyMap):
        return {'map': [[show(k, model), show(x, model)] for k, x in v.items]}
    if isinstance(v, TokStr):
        return {'tok': show(v.id, model), 'len': show(STRLEN(v.id), model)}
    if isinstance(v, ZStr):
        return show(v.t, model)
    if isinstance(v, (list, tuple)):
        return [show(x, model) for x in v]
    if is_sym(v):
        if model is not None:
            r = model.eval(v, model_completion=True)
            if z3.is_int_value(r):
                return r.as_long()
            if z3.is_true(r):
                return True
            if z3.is_false(r):
                return False
            if z3.is_string_value(r):
                return r.as_string()
            return str(r)
        return str(v)
    if isinstance(v, (int, str, bool)) or v is None:
        return v
    return repr(v)


# ----------------------------------------------------------------------------- request-level scheduler

class Scheduler:
    """Interleaves several top-level futures at the granularity of single server/service requests.
    A leaf request future (PendingOnce) completes only when its task holds the grant; the harness picks
    the next task with ctx.choose, so every interleaving inside the bound is explored."""

    def __init__(self, I, ctx, clients=None):
        self.I, self.ctx = I, ctx
        self.clients = clients   # task index -> client id (for the server model's bookkeeping)
        self.current = None      # task being polled
        self.grant = False       # may the current task complete one leaf?
        self.trace = []

    READS = ('get_child_version', 'get_snapshot', 'get', 'list')

    def poll_leaf(self, I, leaf):
        if leaf.served:
            return Adt('Poll', 0, [leaf.value])
        if self.grant:
            self.grant = False
            I.env['current_client'] = self.clients[self.current] if self.clients else self.current
            leaf.value, leaf.served = leaf.thunk(I), True
            self.trace.append((self.current, leaf.label))
            return Adt('Poll', 0, [leaf.value])
        self.pending_label[self.current] = leaf.label
        return Adt('Poll', 1, [])

    def independent(self, a, b):
        """requests of two different tasks commute when neither changes the server/service state"""
        return self.pending_label.get(a) in self.READS and self.pending_label.get(b) in self.READS

    def run(self, futures, label='sched', max_steps=200):
        """futures: list of future values; returns list of results (in task order).
        Sleep sets prune interleavings that differ only in the order of commuting (read-only) requests."""
        I = self.I
        I.env['scheduler'] = self
        results = [None] * len(futures)
        done = [False] * len(futures)
        self.pending_label = {}
        sleep = set()
        try:
            # run every task up to its first request
            for i, f in enumerate(futures):
                self.current, self.grant = i, False
                r = I.poll_future(f)
                if r.variant == 0:
                    results[i], done[i] = r.fields[0], True
            steps = 0
            while not all(done):
                live = [i for i in range(len(futures)) if not done[i]]
                allowed = [i for i in live if i not in sleep]
                if not allowed:
                    raise PathAbort()      # every continuation is covered by an already explored order
                ki = self.ctx.choose(len(allowed), label)
                k = allowed[ki]
                sleep = {s2 for s2 in sleep if self.independent(s2, k)} | \
                        {allowed[i] for i in range(ki) if self.independent(allowed[i], k)}
                self.current, self.grant = k, True
                r = I.poll_future(futures[k])
                if self.grant:
                    raise Unsupported('scheduled task made no request when granted')
                if r.variant == 0:
                    results[k], done[k] = r.fields[0], True
                    self.pending_label.pop(k, None)
                steps += 1
                if steps > max_steps:
                    raise Unsupported('scheduler step bound exceeded')
        finally:
            I.env.pop('scheduler', None)
        return results
