"""C05 — local commits are atomic and follow the documented operation model (in-memory storage).

Real code: Replica::commit_operations -> TaskDb::commit_operations -> apply_operations (write cache,
get_cache / flush_cache), the add-to-working-set computation, the InMemoryStorage transaction."""
import z3

from mirsym.explore import PathAbort, Panic
from mirsym.values import clone_val, TokStr, PyMap, PyVec
from mirsym.models.core import val_eq, z_and, z_all
from .common import get_interp, tasks_eq, show, ref_apply
from .localworld import LocalWorld

PROPERTY = 'C05'
LEVEL = 'other'


class Harness:
    def __init__(self, nops, uuids, props, faults, name):
        self.I = get_interp()
        self.nops, self.uuids, self.props, self.faults, self.name = nops, uuids, props, faults, name

    def run_path(self, ctx):
        c, I = ctx, self.I
        w = LocalWorld(I, ctx, self.uuids, self.props)
        pre = w.symbolic_prestate()
        # optionally one earlier, still unsynchronized commit
        prior = []
        if c.choose(2, 'prior-commit'):
            op, d = w.gen_any_op()
            r = w.commit_replica([op])
            if r.variant != 0:
                raise Panic('prior commit failed')
            prior.append(clone_val(op))
            w.steps.append({'commit': 0, 'ops': [d]})
        state0 = [[u, clone_val(tm)] for u, tm in w.task_list()]
        ops0 = [clone_val(o) for o in w.unsynced()]
        ws0 = [clone_val(x) for x in w.working_set()]
        n = 1 + c.choose(self.nops, 'batch-size')
        batch, descs = [], []
        for i in range(n):
            op, d = w.gen_any_op()
            batch.append(op)
            descs.append(d)
        step = {'commit': 0, 'ops': descs}
        w.steps.append(step)
        if self.faults:
            res, inj = w.with_storage_fault(lambda: w.commit_replica([clone_val(o) for o in batch]))
            if inj is not None:
                step['fault'] = inj
                c.cover('storage fault during commit')
                w.steps.append({'dump': 0})
                # nothing of the batch may be visible
                ok = z_and(tasks_eq(w.task_list(), state0), val_eq(PyVec(w.unsynced()), PyVec(ops0)))
                ok = z_and(ok, val_eq(PyVec(w.working_set()), PyVec(ws0)))
                if res.variant == 0:
                    c.prove(False, 'commit reported success although a storage call failed', w.witness,
                            {'class': 'fault-swallowed', 'fault': inj})
                    return None
                if not c.prove(ok, 'part of a failed commit is visible', w.witness, {'class': 'not-atomic', 'fault': inj}):
                    return None
                return self.sample(w, {'fault': inj})
        else:
            res = w.commit_replica([clone_val(o) for o in batch])
        if res.variant != 0:
            c.prove(False, 'commit_operations returned Err', w.witness, {'class': 'commit-err', 'err': repr(res.fields[0])[:120]})
            return None
        w.steps.append({'dump': 0})
        # (1) tasks == applying the operations one at a time under the documented rules
        ref = [[u, clone_val(tm)] for u, tm in state0]
        for op in batch:
            ref_apply(I, ref, clone_val(op))
        if not c.prove(tasks_eq(w.task_list(), ref), 'tasks differ from applying the operations one at a time', w.witness,
                       {'class': 'semantics'}):
            return None
        # (2) recorded in order as unsynchronized operations
        exp_ops = PyVec(ops0 + [clone_val(o) for o in batch])
        if not c.prove(val_eq(PyVec(w.unsynced()), exp_ops), 'unsynchronized operations are not old list ++ batch', w.witness,
                       {'class': 'op-log'}):
            return None
        # (3) replica invariant: tasks == last synchronized state + unsynchronized operations
        inv = [[u, clone_val(tm)] for u, tm in pre]
        for op in w.unsynced():
            ref_apply(I, inv, clone_val(op))
        if not c.prove(tasks_eq(w.task_list(), inv), 'replica invariant broken by a commit', w.witness, {'class': 'invariant'}):
            return None
        kinds = {o.variant for o in batch}
        if 3 in kinds:
            c.cover('batch with an undo point')
        us = [o.fields[0] for o in batch if o.variant in (0, 1)]
        if len(us) >= 3 and us[0] == us[1] == us[2]:
            c.cover('create/delete of one task repeated inside a batch')
        return self.sample(w, {})

    def sample(self, w, extra):
        out = dict(extra)
        out['steps'] = len(w.steps)
        if w.ctx.want_sample:
            m = w.ctx.get_model()
            if m is not None:
                out['scenario'] = w.witness(m)
                out['predicted'] = {'tasks': w.conc_tasks(w.task_list(), m), 'unsynced': len([o for o in w.unsynced() if o.variant != 3]),
                                    'working_set': [show(x.fields[0], m) if x.variant else None for x in w.working_set()]}
                out['_encoded'] = sorted(self.I.encoded)
                out['_modelled'] = sorted(self.I.modelled)
        return out


def replay_scenario(v):
    return v['witness']


def py_ref(tasks, op):
    k = op['op']
    if k == 'undopoint':
        return
    u = str(op['uuid'])
    if k == 'create':
        tasks.setdefault(u, {})
    elif k == 'delete':
        tasks.pop(u, None)
    elif u in tasks:
        if op['value'] is None:
            tasks[u].pop(op['prop'], None)
        else:
            tasks[u][op['prop']] = op['value']


def replay_judge(scn, out, v):
    """re-evaluate the property on the compiled crate's output with a python statement of the rules"""
    if 'panic' in out:
        return True, [{'panic': out['panic']}]
    probs = []
    tasks = {}
    ops_log = 0
    steps = scn['steps']
    last_dump = None
    for st, res in zip(steps, out['steps']):
        if 'commit' in st:
            if st.get('fault'):
                if 'err' not in res:
                    probs.append({'fault_swallowed': st['fault']})
                continue
            if 'err' in res:
                probs.append({'commit_err': res['err']})
                continue
            for op in st['ops']:
                py_ref(tasks, op)
        elif 'sync' in st:
            pass
        elif 'dump' in st:
            last_dump = res['dump']
            if last_dump['tasks'] != tasks:
                probs.append({'tasks_on_real_code': last_dump['tasks'], 'expected': tasks})
    return bool(probs), probs[:3]


def validate_samples(sample, out):
    if 'panic' in out:
        return False, out
    pred = sample['predicted']
    real = out['replicas'][0]
    if real['tasks'] != pred['tasks'] or real['unsynced'] != pred['unsynced']:
        return False, {'predicted': pred, 'real': real}
    for st, res in zip(sample['scenario']['steps'], out['steps']):
        f = st.get('fault')
        if f and res.get('storage_fault_fired') != f['call']:
            return False, {'fault': f, 'fired_on_real_code': res.get('storage_fault_fired')}
    return True, None


def required_covers(tier):
    return ['batch with an undo point', 'storage fault during commit', 'create/delete of one task repeated inside a batch']


def configs(tier):
    if tier == 'quick':
        return [dict(name='batch3', factory=lambda: Harness(3, (1, 2), ('p',), False, 'b3'),
                     bounds='pre-state: 2 task ids x 1 property, each present/absent; optional earlier unsynced commit; batch of 1-3 arbitrary operations (valid or not, create/delete/set/unset/undo point over the same ids)'),
                dict(name='batch2-faults', factory=lambda: Harness(2, (1,), ('p',), True, 'f2'),
                     bounds='batch of 1-2 arbitrary operations on 1 task id; an error injected at each storage call of the commit')]
    return [dict(name='batch4', factory=lambda: Harness(4, (1, 2), ('p',), False, 'b4'), bounds='as quick, batch of 1-4', time_limit_s=3000),
            dict(name='batch3-P2', factory=lambda: Harness(3, (1, 2), ('p', 'q'), False, 'b3p2'), bounds='as quick with 2 properties', time_limit_s=3000),
            dict(name='batch3-faults', factory=lambda: Harness(3, (1, 2), ('p',), True, 'f3'),
                 bounds='batch of 1-3 operations; an error injected at each storage call', time_limit_s=3000)]


ASSUMPTIONS = [
    'in-memory storage configuration only (the SQLite configuration of the same property is behind FFI)',
    'the synchronized pre-state is written directly into the stored data of the real InMemoryStorage value (replay: established by commit + sync)',
    'operations carry empty old values (commit does not interpret them); strings are abstract tokens',
    'HashMap as association list; iteration order = insertion order',
]
EXPLANATION = ('operation kinds/ids forked, values and timestamps symbolic; z3 must refute: tasks != one-at-a-time reference, '
               'unsynced list != old ++ batch, invariant broken; with an injected storage error at every call index: anything of '
               'the batch visible')
