"""C07 — undo restores the exact prior state and withdraws the changes from sync.

Real code: TaskData::{create,update,delete} (so old values are those the real code records),
Replica::{commit_operations, get_undo_operations, commit_reversed_operations}, taskdb::undo::*, apply_op,
working-set rebuild after undo, and sync for the 'never sent' / 'no undo after sync' clauses."""
import z3

from mirsym.explore import PathAbort, Panic
from mirsym.values import Adt, clone_val, TokStr, PyMap, PyVec, Some, NONE, mkref, LV, Ref
from mirsym.models.core import val_eq, z_and, z_all
from .common import get_interp, tasks_eq, show, ref_apply, ModelServer, dt
from .localworld import LocalWorld

PROPERTY = 'C07'
LEVEL = 'other'


class Harness:
    def __init__(self, nops, uuids, props, mode, name):
        self.I = get_interp()
        self.nops, self.uuids, self.props, self.mode, self.name = nops, uuids, props, mode, name

    # -- generate valid operations through the real mutators
    def mutate(self, w, ops_cell, descs):
        I, c = self.I, w.ctx
        cur = self.scratch
        opts = []
        for u in w.uuids:
            if u in cur:
                for p in w.props:
                    opts.append(('set', u, p))
                    if any(k == p for k, _ in cur[u].items):
                        opts.append(('unset', u, p))
                opts.append(('delete', u, None))
            else:
                opts.append(('create', u, None))
        kind, u, p = opts[c.choose(len(opts), 'mutator')]
        opsref = Ref(LV(ops_cell, 0))
        if kind == 'create':
            td = I.call('TaskData::create', [u, opsref])
            cur[u] = td.fields[1]
            descs.append({'op': 'create', 'uuid': u})
            return
        td = I.call('TaskData::new', [u, clone_val(cur[u])])
        if kind == 'delete':
            I.call('TaskData::delete', [mkref(td), opsref])
            del cur[u]
            descs.append({'op': 'delete', 'uuid': u})
            return
        val = Some(w.fresh_value()) if kind == 'set' else NONE()
        I.call('TaskData::update', [mkref(td), p, val, opsref])
        cur[u] = td.fields[1]
        op = ops_cell[0].items[-1]
        descs.append({'op': 'update', 'uuid': u, 'prop': p, 'value': val.fields[0] if val.variant else None,
                      'ts': op.fields[4].fields[0]})

    def run_path(self, ctx):
        c, I = ctx, self.I
        w = LocalWorld(I, ctx, self.uuids, self.props)
        w.allow_empty = True
        w.ts_terms = []
        pre = w.symbolic_prestate()
        self.scratch = {u: clone_val(tm) for u, tm in pre}
        server = ModelServer(w)
        # earlier changes (their own undo point), then the undo point under test and the changes after it
        segments = []
        nseg = 1 + c.choose(2, 'earlier-segment')
        for s in range(nseg):
            cell = [PyVec([I.mk_enum('Operation', 'UndoPoint', [])])]
            descs = [{'op': 'undopoint'}]
            n = 1 + c.choose(self.nops, 'nops')
            state_before = [[u, clone_val(tm)] for u, tm in w.task_list()]
            unsynced_before = [clone_val(o) for o in w.unsynced()]
            for i in range(n):
                self.mutate(w, cell, descs)
            ops = cell[0].items
            r = w.commit_replica([clone_val(o) for o in ops])
            if r.variant != 0:
                raise Panic('commit failed: ' + repr(r))
            w.steps.append({'commit': 0, 'ops': descs})
            segments.append((state_before, unsynced_before, [clone_val(o) for o in ops]))
        if any(o.variant == 1 and o.fields[1].items for o in segments[-1][2]):
            c.cover('undo of a delete of a populated task')
        # fetch the undo operations
        r = I.block_on(I.call('Replica::get_undo_operations', [mkref(w.rep)]))
        if r.variant != 0:
            raise Panic('get_undo_operations failed')
        undo_ops = r.fields[0]
        w.steps.append({'get_undo': 0})
        if not c.prove(val_eq(undo_ops, PyVec(segments[-1][2])), 'undo operations are not the operations since the last undo point',
                       w.witness, {'class': 'undo-list'}):
            return None
        mode = self.mode
        if mode == 'stale':
            # a later commit invalidates the fetched list
            cell = [PyVec([])]
            descs = []
            self.mutate(w, cell, descs)
            r = w.commit_replica([clone_val(o) for o in cell[0].items])
            w.steps.append({'commit': 0, 'ops': descs})
            return self.expect_refused(w, undo_ops, 'stale undo list after a later commit')
        if mode == 'synced':
            r = w.sync(w.db, server, client=0)
            if r.variant != 0:
                raise Panic('sync failed')
            w.steps.append({'sync': 0})
            r2 = I.block_on(I.call('Replica::get_undo_operations', [mkref(w.rep)]))
            if not c.prove(r2.variant == 0 and len(r2.fields[0].items) == 0, 'changes can still be undone after they were synchronized',
                           w.witness, {'class': 'undo-after-sync'}):
                return None
            c.cover('undo refused after sync')
            return self.expect_refused(w, undo_ops, 'undo list fetched before a sync')
        # --- normal undo
        return self.do_undo(w, undo_ops, segments, server)

    def snapshot(self, w):
        return ([[u, clone_val(tm)] for u, tm in w.task_list()], [clone_val(o) for o in w.unsynced()],
                [clone_val(x) for x in w.working_set()])

    def expect_refused(self, w, undo_ops, what):
        c, I = w.ctx, self.I
        before = self.snapshot(w)
        r = I.block_on(I.call('Replica::commit_reversed_operations', [mkref(w.rep), clone_val(undo_ops)]))
        w.steps.append({'undo': 0, 'use_saved': True})
        w.steps.append({'dump': 0})
        after = self.snapshot(w)
        ok = r.variant == 0 and r.fields[0] is False
        if not c.prove(ok, what + ': commit_reversed_operations did not report failure', w.witness, {'class': 'refusal'}):
            return None
        same = z_and(tasks_eq(before[0], after[0]), val_eq(PyVec(before[1]), PyVec(after[1])))
        if not c.prove(same, what + ': a refused undo changed the replica', w.witness, {'class': 'refusal-changed'}):
            return None
        c.cover('stale undo refused')
        return self.sample(w, {'mode': self.mode})

    def do_undo(self, w, undo_ops, segments, server):
        c, I = w.ctx, self.I
        for k in range(len(segments) - 1, -1, -1):
            state_before, unsynced_before, ops = segments[k]
            if k != len(segments) - 1:
                r = I.block_on(I.call('Replica::get_undo_operations', [mkref(w.rep)]))
                undo_ops = r.fields[0]
                w.steps.append({'get_undo': 0})
                if not c.prove(val_eq(undo_ops, PyVec(ops)), 'second undo does not offer the previous segment', w.witness, {'class': 'undo-list'}):
                    return None
                c.cover('repeated undo')
            r = I.block_on(I.call('Replica::commit_reversed_operations', [mkref(w.rep), clone_val(undo_ops)]))
            w.steps.append({'undo': 0, 'use_saved': True})
            w.steps.append({'dump': 0})
            if not c.prove(r.variant == 0 and r.fields[0] is True, 'undo of the most recent operations did not report success',
                           w.witness, {'class': 'undo-result', 'result': repr(r)[:100]}):
                return None
            if not c.prove(tasks_eq(w.task_list(), state_before), 'undo did not restore the exact earlier task contents',
                           w.witness, {'class': 'restore'}):
                return None
            if not c.prove(val_eq(PyVec(w.unsynced()), PyVec(unsynced_before)), 'undo did not remove exactly the undone operations from the unsynchronized list',
                           w.witness, {'class': 'op-log'}):
                return None
        # nothing undone is ever sent
        r = w.sync(w.db, server, client=0)
        w.steps.append({'sync': 0})
        sent = sum(len(p.payload.src.fields[0].items) for _, _, p in server.chain)
        if not c.prove(r.variant == 0 and sent == 0, 'undone operations were sent to the server', w.witness, {'class': 'sent-after-undo', 'sent': sent}):
            return None
        return self.sample(w, {'mode': self.mode})

    def sample(self, w, extra):
        out = dict(extra)
        if w.ctx.want_sample:
            m = w.ctx.get_model()
            if m is not None:
                out['scenario'] = w.witness(m)
                out['predicted'] = {'tasks': w.conc_tasks(w.task_list(), m), 'unsynced': len([o for o in w.unsynced() if o.variant != 3])}
                out['_encoded'] = sorted(self.I.encoded)
                out['_modelled'] = sorted(self.I.modelled)
        return out


def replay_scenario(v):
    return v['witness']


def replay_judge(scn, out, v):
    """judge on the compiled crate: after every 'undo' step that should succeed the dump must equal the state
    before the corresponding commit (python reference), refusals must leave the dump unchanged"""
    if 'panic' in out:
        return True, [{'panic': out['panic']}]
    from .c05 import py_ref
    probs = []
    tasks = {}
    history = []          # stack of (tasks before segment)
    cls = (v.get('info') or {}).get('class')
    for st, res in zip(scn['steps'], out['steps']):
        if 'commit' in st:
            if st['ops'] and st['ops'][0]['op'] == 'undopoint':
                history.append({k: dict(x) for k, x in tasks.items()})
            for op in st['ops']:
                py_ref(tasks, op)
        elif 'undo' in st:
            if res.get('undone') and history:
                tasks = history.pop()
        elif 'dump' in st:
            if res['dump']['tasks'] != tasks:
                probs.append({'tasks_on_real_code': res['dump']['tasks'], 'expected': tasks})
    if not probs and cls in ('undo-result', 'refusal', 'undo-after-sync', 'sent-after-undo', 'op-log', 'undo-list'):
        probs.append({'note': 'solver model violates ' + cls, 'steps_on_real_code': out['steps'][-3:], 'server': out.get('server', {}).get('versions')})
    return bool(probs), probs[:3]


def validate_samples(sample, out):
    if 'panic' in out:
        return False, out
    pred = sample['predicted']
    real = out['replicas'][0]
    if real['tasks'] != pred['tasks'] or real['unsynced'] != pred['unsynced']:
        return False, {'predicted': pred, 'real': {'tasks': real['tasks'], 'unsynced': real['unsynced']}}
    return True, None


def required_covers(tier):
    return ['undo of a delete of a populated task', 'repeated undo', 'stale undo refused', 'undo refused after sync']


def configs(tier):
    n = 2 if tier == 'quick' else 3
    ids = (1,) if tier == 'quick' else (1, 2)
    out = []
    for mode in ('undo', 'stale', 'synced'):
        out.append(dict(name=mode, factory=(lambda mode=mode: Harness(n, ids, ('p', 'q'), mode, mode)),
                        bounds=f'pre-state {len(ids)} task id(s) x 2 properties; 1-2 undo segments of 1-{n} mutator calls each (TaskData create/update/delete); mode={mode}',
                        time_limit_s=3000 if tier != 'quick' else 600))
    return out


ASSUMPTIONS = [
    'in-memory storage; synchronized pre-state written into the stored data (replay: commit + sync)',
    'operations are produced by the real TaskData mutators against the current state (valid sequences)',
    'Utc::now is an arbitrary instant per call; strings are abstract tokens; reference server for the sync clauses',
]
EXPLANATION = ('mutator kinds forked, values/clock symbolic; z3 must refute: undo list != operations since the last undo point, '
               'state after undo != state at the undo point, unsynced list not shortened by exactly those operations, success flag '
               'wrong, a stale or post-sync list accepted or changing anything, undone operations reaching the server')
