"""C04 — an interrupted sync loses nothing and can simply be repeated (in-memory storage).

A fault selector ranges over every storage call and every server request issued by the real `sync`;
kinds: error before the effect, effect then lost reply.  Afterwards the replica syncs again."""
import z3

from mirsym.explore import PathAbort, Panic
from mirsym.interp import NOT_HANDLED
from mirsym.values import clone_val, BoxV, Err, Ok
from mirsym.models.core import Ready, val_eq, z_all
from .common import get_interp, tasks_eq, show, ModelServer
from .syncworld import SyncWorld, judge_convergence

PROPERTY = 'C04'
LEVEL = 'fault_enumeration'


class Harness:
    def __init__(self, props, nmax, earlier, name, second_fault=False):
        self.I = get_interp()
        self.props, self.nmax, self.earlier, self.name, self.second_fault = props, nmax, earlier, name, second_fault

    def run_path(self, ctx):
        c = ctx
        I = self.I
        w = SyncWorld(I, ctx, 2, (1, 2), self.props)
        w.do_commit(0, 1, allow_delete=False)
        for r in (0, 1):
            w.do_sync(r)
        n0 = c.choose(self.earlier + 1, 'earlier')
        if n0:
            w.do_commit(0, n0)
            w.do_sync(0)
        n1 = 1 + c.choose(self.nmax, 'n1')
        w.do_commit(1, n1)
        pre_dbs = [clone_val(d) for d in w.dbs]
        pre_chain = list(w.server.chain)

        faults = 2 if self.second_fault else 1
        injected = []
        for attempt in range(faults):
            inj = self.faulty_sync(w, 1)
            if inj is None:
                break
            injected.append(inj)
            # the interrupted replica's stored data must satisfy the replica invariant
            if not w.check_invariant(1, 'replica invariant after an interrupted sync'):
                return None
        if not injected:
            c.cover('fault-free baseline')
        else:
            c.cover('fault:' + injected[0][0] + ':' + injected[0][2])
            if injected[0][1] == 'add_version' and injected[0][2] == 'err_after':
                c.cover('lost reply of an accepted version')
        # optionally the user goes on working before the sync is repeated: one more local change on the interrupted replica
        # (only explored when no foreign change is in flight, so that the same change is valid in the uninterrupted twin)
        extra_ops = []
        if injected and n0 == 0 and c.choose(2, 'change-after-interruption'):
            extra_ops = [clone_val(o) for o in w.do_commit(1, 1)]
            c.cover('local change between the interrupted sync and its repetition')
        # repeat the sync, then everybody syncs until quiet
        for rnd in range(2):
            for r in (1, 0):
                w.do_sync(r)
                if not w.check_invariant(r, 'replica invariant after re-sync'):
                    return None
        ref = w.chain_state()
        for r in (0, 1):
            if w.unsynced_ops(w.dbs[r]):
                c.prove(False, 'unsynced operations remain', w.witness, {'class': 'unsynced-left'})
                return None
            if not c.prove(tasks_eq(w.replica_tasks(r), ref), 'replica differs from chain replay after interrupted sync',
                           w.witness, {'class': 'diverged', 'fault': injected}):
                return None
        # twin: the same history without the interruption
        srv = ModelServer(w)
        srv.chain = list(pre_chain)
        dbs = [clone_val(d) for d in pre_dbs]
        if extra_ops:
            res = w.sync(dbs[1], srv, client=1)
            if res.variant != 0:
                raise Panic('twin sync failed')
            res = w.commit(dbs[1], [clone_val(o) for o in extra_ops])
            if res.variant != 0:
                raise Panic('twin commit failed')
        for rnd in range(2):
            for r in (1, 0):
                res = w.sync(dbs[r], srv, client=r)
                if res.variant != 0:
                    raise Panic('twin sync failed')
        twin = [[k, v] for k, v in w.tasks_of(dbs[0]).items]
        if not c.prove(tasks_eq(w.replica_tasks(0), twin), 'result differs from the uninterrupted sync', w.witness,
                       {'class': 'differs-from-uninterrupted', 'fault': injected}):
            return None
        # "none takes effect twice": the operations that reached the chain are those of the uninterrupted run, once each
        def chain_ops(chain):
            out = []
            for _, _, p in chain[len(pre_chain):]:
                js = p.payload if hasattr(p, 'payload') else p
                out.extend(js.src.fields[0].items)
            return out
        a, b = chain_ops(w.server.chain), chain_ops(srv.chain)
        same = len(a) == len(b) and z_all(val_eq(x, y) for x, y in zip(a, b))
        if not c.prove(same, 'the operations on the chain differ from the uninterrupted run (a change was sent twice or not at all)', w.witness,
                       {'class': 'chain-differs-from-uninterrupted', 'fault': injected, 'ops': [len(a), len(b)]}):
            return None
        return w.sample({'fault': injected})

    def faulty_sync(self, w, r):
        """run sync on replica r with at most one injected fault; returns (layer, call, kind, index) or None"""
        I, c = self.I, w.ctx
        state = {'n': 0, 'sn': 0, 'inj': None}

        def storage_hook(I2, sp, path, args):
            if state['inj'] is not None:
                return NOT_HANDLED
            if not (sp.startswith('<dyn StorageTxn') or sp.startswith('<Self as StorageTxn>') or sp == '<S as Storage>::txn'):
                return NOT_HANDLED
            meth = sp.split('::')[-1]
            if meth == 'is_empty':
                return NOT_HANDLED       # default method: its four inner calls are the storage calls
            state['n'] += 1
            state['sn'] += 1
            kinds = ['err_before'] + (['err_after'] if meth == 'commit' else [])
            k = c.choose(1 + len(kinds), 'fault?')
            if k == 0:
                return NOT_HANDLED
            kind = kinds[k - 1]
            state['inj'] = ('storage', meth, kind, state['sn'])
            err = Err(I2.mk_enum('Error', 'Database', ['injected storage fault']))
            if kind == 'err_after':
                # the commit takes effect, then the error is reported
                I2.env['call_hook'] = None
                fut = I2.call(path, args)
                I2.block_on(fut)
            return Ready(err)

        def server_fault(I2, meth, idx):
            if state['inj'] is not None:
                return None
            state['n'] += 1
            kinds = ['err_before'] + (['err_after'] if meth in ('add_version', 'add_snapshot') else [])
            k = c.choose(1 + len(kinds), 'fault?')
            if k == 0:
                return None
            state['inj'] = ('server', meth, kinds[k - 1], idx)
            return kinds[k - 1]

        I.env['call_hook'] = storage_hook
        w.server.fault = server_fault
        try:
            n0 = len(w.server.chain)
            res = w.sync(w.dbs[r], w.server, client=r)
        finally:
            I.env['call_hook'] = None
            w.server.fault = None
        inj = state['inj']
        step = {'sync': r, 'versions_added': len(w.server.chain) - n0}
        if inj is not None:
            step['fault'] = {'layer': inj[0], 'call': inj[1], 'kind': inj[2], 'index': inj[3]}
        w.history.append(step)
        if inj is None:
            if res.variant != 0:
                c.prove(False, 'sync returned Err without a fault', w.witness, {'class': 'sync-err'})
                raise PathAbort()
            return None
        if res.variant == 0 and not (inj[1] == 'commit' and inj[2] == 'err_after'):
            # an injected error that sync swallowed: allowed only where the code documents it (none in sync)
            c.cover('fault swallowed: ' + inj[1])
        return inj


def replay_scenario(v):
    """faults are replayed on the compiled crate too: server faults through the reference server's fault
    script, storage faults through a Storage wrapper (public traits) that fails the k-th call of that sync"""
    wit = v['witness']
    scn = dict(wit, kind='sync')
    n = scn['replicas']
    scn['steps'] = list(scn['steps']) + [{'sync': r} for _ in range(2) for r in (1, 0)]
    twin = dict(scn, steps=[{k: x for k, x in s.items() if k != 'fault'} for s in scn['steps']])
    return [scn, twin]


def replay_judge(scn, out, v):
    real, twin = out
    probs = judge_convergence(dict(real, steps=[s for s in real.get('steps', []) if not s.get('storage_fault_fired') and 'injected' not in str(s.get('err', ''))]))
    a = [r['tasks'] for r in real.get('replicas', [])]
    b = [r['tasks'] for r in twin.get('replicas', [])]
    if a != b:
        probs.append({'interrupted_final': a, 'uninterrupted_final': b})

    def sent(o):
        ops = []
        for ver in o.get('server', {}).get('versions', []):
            d = ver.get('doc')
            ops.extend(d.get('operations', []) if isinstance(d, dict) else [])
        return ops
    if sent(real) != sent(twin):
        probs.append({'operations_on_chain_interrupted': sent(real)[:8], 'uninterrupted': sent(twin)[:8]})
    return bool(probs), probs[:3]


def validate_samples(sample, out):
    pred = sample['predicted']['replicas']
    real = [r['tasks'] for r in out.get('replicas', [])]
    if real != pred:
        return False, {'predicted': pred, 'real': real}
    # the injected fault must have fired at the same call on the compiled crate
    for st_m, st_r in zip(sample['scenario']['steps'], out.get('steps', [])):
        f = st_m.get('fault')
        if f and f['layer'] == 'storage' and st_r.get('storage_fault_fired') != f['call']:
            return False, {'fault': f, 'fired_on_real_code': st_r.get('storage_fault_fired')}
    return True, None


def required_covers(tier):
    return ['fault-free baseline', 'lost reply of an accepted version', 'fault:server:err_before', 'fault:storage:err_before',
            'local change between the interrupted sync and its repetition']


def configs(tier):
    if tier == 'quick':
        return [dict(name='1fault', factory=lambda: Harness(('p',), 2, 1, 'q'),
                     bounds='2 replicas, 2 task ids; interrupted replica carries 1-2 ops (several versions possible), 0-1 unseen earlier op; one fault at every storage call / server request of the sync x {error before effect, effect then lost reply}; optionally one more local change between the interrupted sync and its repetition')]
    return [dict(name='1fault-P2', factory=lambda: Harness(('p', 'q'), 2, 1, 't'),
                 bounds='as quick with 2 properties', time_limit_s=3000),
            dict(name='2faults', factory=lambda: Harness(('p',), 2, 1, 't2', second_fault=True),
                 bounds='two consecutive interrupted syncs before the successful one', time_limit_s=3000)]


ASSUMPTIONS = [
    'in-memory storage only: an error or process stop before commit leaves the stored data untouched because the real Txn copies its working data back only in commit (executed from MIR); "process stop" is therefore the same stored-data outcome as "error"; the SQLite configuration is outside',
    'server faults: error before the effect, or effect carried out and the reply lost (add_version / add_snapshot)',
    'reference server model; injective JSON codec; association-list maps',
]
EXPLANATION = ('the fault point is chosen by forking at every storage call and server request the real sync makes (so the set '
               'of fault points is derived from the executed code, not listed by hand); operations are symbolic as in C01; '
               'after the fault: replica invariant, re-sync Ok, convergence to the chain replay, equality with the '
               'uninterrupted twin')
NONTRIVIAL_RULE = 'a case = (history shape, fault point, fault kind, solver-decided data branches); non-trivial when a fault was injected; counted as completed paths'
