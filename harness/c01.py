"""C01 — replicas converge after any history of edits and syncs (sequential syncs)."""
import z3

from mirsym.explore import PathAbort, Panic
from .common import get_interp, tasks_eq, show
from .syncworld import SyncWorld, judge_convergence

PROPERTY = 'C01'
LEVEL = 'model_checking'


class Harness:
    """history = bounded sequence of actions {commit k ops on replica i, sync replica i}; then every replica
    syncs until nothing is left to send"""

    def __init__(self, nrep, nactions, max_ops, uuids, props, name, prelude=False):
        self.I = get_interp()
        self.prelude = prelude
        self.nrep, self.nactions, self.max_ops = nrep, nactions, max_ops
        self.uuids, self.props, self.name = uuids, props, name

    def run_path(self, ctx):
        w = SyncWorld(self.I, ctx, self.nrep, self.uuids, self.props)
        c = ctx
        nsync_mid = 0
        if self.prelude:
            # the shared task already exists everywhere: conflicts among updates/deletes are inside a short history
            w.force_op = ('create', self.uuids[0], None)
            w.do_commit(0, 1, allow_delete=False)
            w.force_op = None
            for r in range(self.nrep):
                w.do_sync(r)
        for a in range(self.nactions):
            # action alphabet: for each replica: sync, or commit of 1..max_ops operations; or stop early
            k = c.choose(self.nrep * (1 + self.max_ops) + 1, 'action')
            if k == self.nrep * (1 + self.max_ops):
                break
            r, what = divmod(k, 1 + self.max_ops)
            if a == 0 and r != 0:
                raise PathAbort()            # symmetry: the first action is on replica 0
            if what == 0:
                w.do_sync(r)
                nsync_mid += 1
                if not w.check_invariant(r, f'replica invariant after sync'):
                    return None
            else:
                w.do_commit(r, what)
        # final: everybody syncs twice, in order
        for rnd in range(2):
            for r in range(self.nrep):
                w.do_sync(r)
                if not w.check_invariant(r, 'replica invariant after sync'):
                    return None
        # nothing left to send
        for r in range(self.nrep):
            if w.unsynced_ops(w.dbs[r]):
                c.prove(False, 'unsynced operations remain after sync', w.witness, {'class': 'unsynced-left'})
                return None
        ref = w.chain_state()
        ok = True
        for r in range(self.nrep):
            eq = tasks_eq(w.replica_tasks(r), ref)
            ok = c.prove(eq, 'replica state differs from replay of the server chain', w.witness,
                         {'class': 'diverged', 'replica': r, 'batches': batch_shape(w)}) and ok
            if not ok:
                return None
        shape = batch_shape(w)
        if any(n > 1 for n in shape):
            c.cover('multi-batch sync')
        if len(w.server.chain) >= 2:
            c.cover('two or more versions')
        if nsync_mid:
            c.cover('sync inside history')
        return w.sample({'batches': shape})


def replay_scenario(v):
    scn = dict(v['witness'], kind='sync')
    # the judge evaluates the property itself: let every replica sync until nothing is left
    n = scn['replicas']
    scn['steps'] = list(scn['steps']) + [{'sync': r} for _ in range(2) for r in range(n)]
    return scn


def replay_judge(scn, out, v):
    probs = judge_convergence(out)
    return bool(probs), probs[:3]


def validate_samples(sample, out):
    pred = sample['predicted']
    real = [r['tasks'] for r in out.get('replicas', [])]
    if real != pred['replicas']:
        return False, {'predicted': pred['replicas'], 'real': real}
    rb = [v['bytes'] for v in out['server']['versions']]
    if len(rb) != pred['versions'] or rb != pred['version_bytes']:
        return False, {'predicted_version_bytes': pred['version_bytes'], 'real': rb}
    return True, None


def required_covers(tier):
    return ['multi-batch sync', 'two or more versions', 'sync inside history', 'server:expected_parent'] if False else \
        ['multi-batch sync', 'two or more versions', 'sync inside history']


ASSUMPTIONS = [
    'storage = the crate\'s InMemoryStorage (its transaction code is executed from MIR); SQLite is outside',
    'server = a protocol-correct reference model behind dyn Server (chain head compare-and-set)',
    'serde_json is an injective codec: from_str(to_string(v)) = v; its byte length is the documented compact form for ASCII-alphanumeric strings and whole-second timestamps',
    'HashMap/HashSet modelled as association lists (iteration in insertion order); Vec, iterators, Option/Result as std documents them',
    'operations are valid when generated (made against the replica\'s own state), as docs/src/sync-model.md requires',
    'strings are abstract tokens (equality + length); values 8..1.2M bytes, so several versions per sync are solver choices',
]
EXPLANATION = ('history actions and operation kinds are forked exhaustively inside the bound; timestamps, value identities '
               'and string lengths (hence batch boundaries) are z3 variables; at the end of every path the negated '
               'convergence / invariant formula must be unsat')


def batch_shape(w):
    """number of versions uploaded by each sync call of the history"""
    return [h['versions_added'] for h in w.history if 'sync' in h]


def configs(tier):
    if tier == 'quick':
        return [
            dict(name='R2-T1-P2-A3', factory=lambda: Harness(2, 3, 2, (1,), ('p', 'q'), 'R2-T1-P2-A3'),
                 bounds='2 replicas, <=3 actions (commit of 1-2 ops | sync) then 2 sync rounds, 1 task, 2 properties'),
        ]
    return [
        dict(name='R2-T1-P1-A4', factory=lambda: Harness(2, 4, 2, (1,), ('p',), 'R2-T1-P1-A4'),
             bounds='2 replicas, <=4 actions (commit of 1-2 ops | sync), 1 task, 1 property', time_limit_s=3300),
        dict(name='R2-T2-P1-A3', factory=lambda: Harness(2, 3, 2, (1, 2), ('p',), 'R2-T2-P1-A3'),
             bounds='2 replicas, <=3 actions, 2 tasks, 1 property', time_limit_s=3300),
        dict(name='R3-T1-P1-A3', factory=lambda: Harness(3, 3, 2, (1,), ('p',), 'R3-T1-P1-A3'),
             bounds='3 replicas, <=3 actions, 1 task, 1 property'),
        dict(name='R3-T1-P1-A3-shared', factory=lambda: Harness(3, 3, 1, (1,), ('p',), 'R3-T1-P1-A3-shared', prelude=True),
             bounds='3 replicas that already share the task, <=3 actions (commit of 1 op | sync), 1 property', time_limit_s=3300),
    ]
