"""Object-store world: the real CloudServer<SVC> (MIR) over a model object store implementing the crate's
private `Service` trait; several client handles over one shared store; request-level scheduling and faults."""
import z3

from mirsym.explore import PathAbort, Panic
from mirsym.parser import Unsupported
from mirsym.values import (Adt, LV, Ref, BoxV, PyVec, PySlice, PyMap, Bytes, SegStr, Opaque, Some, NONE, Ok, Err, Tuple, UNIT,
                           clone_val, deref, deref1, mkref, is_sym)
from mirsym.models.core import val_eq, z_and, z_or, z_not, z_all, z_any, Ready, PendingOnce
from mirsym.models import extern, strings
from .common import World, Scheduler, show

UUID_MAX = 2 ** 128 - 1


class Store:
    """the shared object store: name -> (value, creation time); listing order = creation order"""

    def __init__(self):
        self.objs = []        # dicts: name, value, creation, seq
        self.seq = 0
        self.log = []         # (client, kind, name)
        self.nreq = 0

    def find(self, I, name):
        for o in self.objs:
            if I.ctx.branch(val_eq(o['name'], name)):
                return o
        return None

    def clone(self):
        s = Store()
        s.objs = [dict(o) for o in self.objs]
        s.seq = self.seq
        return s


class Listing:
    """AsyncObjectIterator over a prefix: pages are fetched lazily; a page fetch is one request"""
    rust_type = 'Listing'

    def __init__(self, svc, prefix):
        self.svc, self.prefix = svc, prefix
        self.cursor = 0          # sequence number after which the next page starts
        self.buf = []
        self.done = False

    def rust_call(self, trait, meth):
        if meth != 'next':
            raise Unsupported('Listing::' + meth)
        return lambda I, path, args: self.next(I)

    def next(self, I):
        if self.buf:
            return Ready(Some(Ok(self.buf.pop(0))))
        if self.done:
            return Ready(NONE())

        def fetch(I2):
            svc = self.svc
            err = svc.maybe_fault(I2, 'list', self.prefix)
            if err is not None:
                self.done = True
                return Some(err)
            page = []
            for o in svc.store.objs:
                if o['seq'] <= self.cursor:
                    continue
                if len(page) >= svc.page_size:
                    break
                self.cursor = o['seq']
                if I2.ctx.branch(strings._affix(deref(o['name']), self.prefix, True)):
                    page.append(Adt('ObjectInfo', 0, [o['name'], o['creation']]))
            else:
                self.done = True
            svc.store.log.append((svc.client, 'list', self.prefix))
            if not page:
                if self.done:
                    return NONE()
                # an empty page that is not the last: the caller's next() sees the following page
                self.buf = []
                return self.next_sync(I2)
            self.buf = page[1:]
            return Some(Ok(page[0]))
        return svc_future(self.svc, fetch, 'list')

    def next_sync(self, I):
        f = self.next(I)
        while isinstance(f, PendingOnce):
            return f.thunk(I)
        return f.v


def svc_future(svc, thunk, label):
    return PendingOnce(thunk, label)


class ServiceHandle:
    """one client's handle on the shared store (what CloudServer<SVC> owns as `service`)"""
    rust_type = 'ServiceHandle'

    def __init__(self, world, store, client):
        self.w, self.store, self.client = world, store, client
        self.page_size = world.page_size
        self.fault = None          # hook(I, kind, name) -> None | 'before' | 'after'

    def rust_call(self, trait, meth):
        fn = getattr(self, 'svc_' + meth, None)
        if fn is None:
            raise Unsupported('Service::' + meth)
        return lambda I, path, args: fn(I, *args[1:])

    def maybe_fault(self, I, kind, name):
        self.store.nreq += 1
        if self.fault is None:
            return None
        k = self.fault(I, kind, name, self.store.nreq)
        if k == 'before':
            return Err(I.mk_enum('Error', 'Server', ['injected service fault']))
        return k

    def _do(self, kind, name, effect):
        """request future: fault hook, then the effect at service time"""
        def th(I):
            k = self.maybe_fault(I, kind, name)
            if isinstance(k, Adt):
                return k
            r = effect(I)
            self.store.log.append((self.client, kind, name))
            if k == 'after':
                return Err(I.mk_enum('Error', 'Server', ['injected service fault (reply lost)']))
            return r
        return PendingOnce(th, kind)

    def svc_put(self, I, name, value):
        name, value = deref(name), PyVec(list(deref(value).items)) if isinstance(deref(value), (PyVec, PySlice)) else deref(value)

        def eff(I2):
            o = self.store.find(I2, name)
            if o is not None:
                o['value'] = value
            else:
                self.store.seq += 1
                self.store.objs.append({'name': name, 'value': value, 'creation': self.w.service_now(), 'seq': self.store.seq})
            return Ok(UNIT())
        return self._do('put', name, eff)

    def svc_get(self, I, name):
        name = deref(name)

        def eff(I2):
            o = self.store.find(I2, name)
            return Ok(Some(clone_val(o['value'])) if o is not None else NONE())
        return self._do('get', name, eff)

    def svc_del(self, I, name):
        name = deref(name)

        def eff(I2):
            o = self.store.find(I2, name)
            if o is not None:
                self.store.objs.remove(o)
            return Ok(UNIT())
        return self._do('del', name, eff)

    def svc_compare_and_swap(self, I, name, existing, new):
        name = deref(name)

        def eff(I2):
            o = self.store.find(I2, name)
            if existing.variant == 0:
                if o is not None:
                    return Ok(False)
                self.store.seq += 1
                self.store.objs.append({'name': name, 'value': new, 'creation': self.w.service_now(), 'seq': self.store.seq})
                return Ok(True)
            if o is None:
                return Ok(False)
            if not I2.ctx.branch(val_eq(o['value'], existing.fields[0])):
                return Ok(False)
            o['value'] = new
            return Ok(True)
        return self._do('compare_and_swap', name, eff)

    def svc_list(self, I, prefix):
        return Ready(BoxV(Listing(self, deref(prefix))))


class CloudWorld(World):
    def __init__(self, I, ctx, page_size=100, concrete_ids=False, concrete_now=None):
        super().__init__(I, ctx)
        self.page_size = page_size
        self.concrete_ids = concrete_ids
        self.concrete_now = concrete_now
        self.nids = 0
        self.store = Store()
        self.uuids = []
        self.now_term = None
        I.env['new_uuid'] = self.new_uuid
        I.env['system_now'] = self.system_now
        self.secret = PyVec([115, 101, 99])         # b"sec"
        self.servers = {}

    def new_uuid(self, I=None):
        if self.concrete_ids:
            # distinct, deliberately non-monotonic concrete ids (their order is not the subject of that check)
            self.nids += 1
            t = 1000 + (self.nids * 7919) % 997
            self.uuids.append(t)
            return t
        t = self.ctx.fresh_int('vid', 1, UUID_MAX)
        for u in self.uuids:
            self.ctx.assume(t != u)
        self.uuids.append(t)
        return t

    def known_uuid(self, u):
        self.uuids.append(u)

    def system_now(self, I=None):
        if self.concrete_now is not None:
            return self.concrete_now
        if self.now_term is None:
            self.now_term = self.ctx.fresh_int('now', 0, 4_000_000_000)
        return self.now_term

    def service_now(self):
        return self.system_now()

    def new_server(self, client, secret=None):
        h = ServiceHandle(self, self.store, client)
        fut = self.I.call('CloudServer::new', [h, clone_val(secret or self.secret)])
        r = self.I.block_on(fut)
        if r.variant != 0:
            raise Panic('CloudServer::new failed: ' + repr(r)[:200])
        srv = r.fields[0]
        self.servers[client] = (srv, h)
        return srv, h

    # futures of the Server trait methods on the real CloudServer
    def f_add_version(self, srv, parent, payload):
        return self.I.call('<CloudServer as Server>::add_version', [mkref(srv), parent, payload])

    def f_get_child_version(self, srv, parent):
        return self.I.call('<CloudServer as Server>::get_child_version', [mkref(srv), parent])

    def f_add_snapshot(self, srv, vid, payload):
        return self.I.call('<CloudServer as Server>::add_snapshot', [mkref(srv), vid, payload])

    def f_get_snapshot(self, srv):
        return self.I.call('<CloudServer as Server>::get_snapshot', [mkref(srv)])

    def f_cleanup(self, srv):
        return self.I.call('CloudServer::cleanup', [mkref(srv)])

    def run(self, fut):
        return self.I.block_on(fut)

    # --- inspecting the store
    def latest(self):
        for o in self.store.objs:
            if o['name'] == 'latest':
                r = strings.uuid_parse(self.I, o['value'])
                return r.fields[0] if r.variant == 0 else None
        return None

    def version_objects(self):
        """[(parent, child, obj)] for every v-P-C object"""
        out = []
        for o in self.store.objs:
            n = o['name']
            if isinstance(n, SegStr) and len(n.segs) == 4 and n.segs[0] == 'v-':
                out.append((n.segs[1][1], n.segs[3][1], o))
        return out

    def snapshot_objects(self):
        out = []
        for o in self.store.objs:
            n = o['name']
            if isinstance(n, SegStr) and len(n.segs) == 2 and n.segs[0] == 's-':
                out.append((n.segs[1][1], o))
        return out

    def payload(self, n=1, label='pl'):
        """a small symbolic byte string"""
        return PyVec([self.ctx.fresh_int(label, 0, 255) for _ in range(n)])
