"""Object-store world: the real CloudServer<SVC> (MIR) over a model object store implementing the crate's
private `Service` trait; several client handles over one shared store; request-level scheduling and faults."""
import z3

from mirsym.explore import PathAbort, Panic
from mirsym.parser import Unsupported
from mirsym.values import (Adt, LV, Ref, BoxV, PyVec, PySlice, PyMap, Bytes, SegStr, Opaque, Some, NONE, Ok, Err, Tuple, UNIT,
                           clone_val, deref, deref1, mkref, is_sym)
from mirsym.models.core import val_eq, z_and, z_or, z_not, z_all, z_any, Ready, PendingOnce
from mirsym.models import extern, strings
from .common import World, Scheduler, show

UUID_MAX = 2 ** 128 - 1


# ----------------------------------------------------------------------------- replay on the compiled crate
import json as _json
import re as _re

_HY = _re.compile(r'([0-9a-f]{8})-([0-9a-f]{4})-([0-9a-f]{4})-([0-9a-f]{4})-([0-9a-f]{12})')
_ID = _re.compile(r'[0-9a-f]{32}')


def canon(obj):
    """JSON text with every uuid replaced by the index of its first appearance (ids are minted at random by the
    real code, so only their identity pattern is comparable)"""
    txt = _HY.sub(r'\1\2\3\4\5', _json.dumps(obj, sort_keys=True))
    seen = {}

    def rep(mo):
        h = mo.group(0)
        if h not in seen:
            seen[h] = 'u%d' % len(seen)
        return seen[h]
    return _ID.sub(rep, txt)


def observed(out):
    """the comparable part of tc-replay's output for a 'cloud' scenario"""
    def res(r):
        if isinstance(r, dict) and 'err' in r:
            return {'err': '*'}
        return r
    phases = []
    for ph in out.get('phases', []):
        if 'tweaked' in ph:
            phases.append({'tweaked': ph['tweaked']})
        elif isinstance(ph.get('results'), dict):
            phases.append({'results': {k: [res(r) for r in v] for k, v in ph['results'].items()}, 'log': ph['log']})
        else:
            phases.append({'results': [res(r) for r in ph.get('results', [])], 'log': ph.get('log')})
    store = [{'name': o['name'], 'value': o['value'] if o['name'] == 'latest' else None, 'creation': o['creation']} for o in out.get('store', [])]
    return {'phases': phases, 'store': store}


def compare_with_prediction(pred, out):
    """(equal, detail): does the compiled crate do exactly what the interpreter predicted for this scenario?"""
    if not isinstance(out, dict) or 'phases' not in out:
        return False, {'replay_output': str(out)[:400]}
    if not out.get('order_matched', True):
        return False, {'note': 'the randomly minted version ids never had the wanted relative order', 'tries': out.get('tries')}
    notes = [n for ph in out['phases'] for n in ph.get('notes', [])]
    obs = observed(out)
    a, b = canon(pred), canon(obs)
    if a == b and not notes:
        return True, {'tries': out.get('tries')}
    d = {'notes': notes}
    for k, (p, o) in enumerate(zip(pred['phases'], obs['phases'])):
        if canon(p) != canon(o):
            d['first_differing_phase'] = k
            d['predicted'] = _json.loads(canon(p))
            d['real'] = _json.loads(canon(o))
            break
    else:
        d['predicted_store'] = _json.loads(canon(pred))['store']
        d['real_store'] = _json.loads(canon(obs))['store']
    return False, d


def replay_scenario(v):
    return v['witness']['cloud']['scenario']


def replay_judge(scn, out, v):
    """the counterexample is confirmed when the compiled crate behaves exactly as the interpreter predicted on it
    (same results, same request log, same store content): the property oracle was evaluated on those values"""
    eq, d = compare_with_prediction(v['witness']['cloud']['predicted'], out)
    return (True if eq else False), d


def validate_samples(s, out):
    return compare_with_prediction(s['predicted'], out)


class Store:
    """the shared object store: name -> (value, creation time); listing order = creation order"""

    def __init__(self):
        self.objs = []        # dicts: name, value, creation, seq
        self.seq = 0
        self.log = []         # (client, kind, name)
        self.nreq = 0

    def find(self, I, name):
        for o in self.objs:
            if I.ctx.branch(val_eq(o['name'], name)):
                return o
        return None

    def clone(self):
        s = Store()
        s.objs = [dict(o) for o in self.objs]
        s.seq = self.seq
        return s


class Listing:
    """AsyncObjectIterator over a prefix: pages are fetched lazily; a page fetch is one request"""
    rust_type = 'Listing'

    def __init__(self, svc, prefix):
        self.svc, self.prefix = svc, prefix
        self.cursor = 0          # sequence number after which the next page starts
        self.buf = []
        self.done = False

    def rust_call(self, trait, meth):
        if meth != 'next':
            raise Unsupported('Listing::' + meth)
        return lambda I, path, args: self.next(I)

    def next(self, I):
        if self.buf:
            return Ready(Some(Ok(self.buf.pop(0))))
        if self.done:
            return Ready(NONE())

        return PagedNext(self)

    def fetch(self, I2):
        if True:
            svc = self.svc
            err = svc.maybe_fault(I2, 'list', self.prefix)
            if err is not None:
                self.done = True
                if not isinstance(err, Adt):
                    err = Err(I2.mk_enum('Error', 'Server', ['injected service fault']))
                return Some(err)
            page = []
            taken = 0
            for o in svc.store.objs:
                if o['seq'] <= self.cursor:
                    continue
                if taken >= svc.page_size:
                    break
                self.cursor = o['seq']
                taken += 1
                if I2.ctx.branch(strings._affix(deref(o['name']), self.prefix, True)):
                    page.append(Adt('ObjectInfo', 0, [o['name'], o['creation']]))
            else:
                self.done = True
            if not page:
                if self.done:
                    return NONE()
                # an empty page that is not the last: the next page is one more request
                return CONTINUE
            self.buf = page[1:]
            return Some(Ok(page[0]))


CONTINUE = object()


class PagedNext:
    """the future of AsyncObjectIterator::next: one Service request per page fetched"""

    def __init__(self, listing):
        self.l, self.leaf = listing, None

    def poll_model(self, I, cx):
        from mirsym.models.core import poll_value
        while True:
            if self.leaf is None:
                self.leaf = PendingOnce(self.l.fetch, 'list')
            r = poll_value(I, self.leaf, cx)
            if r.variant != 0:
                return r
            v = r.fields[0]
            self.leaf = None
            if v is CONTINUE:
                continue
            return Adt('Poll', 0, [v])


class Then:
    """future adaptor: apply f to the result when ready"""

    def __init__(self, fut, f):
        self.fut, self.f = fut, f

    def poll_model(self, I, cx):
        r = I.poll_future(self.fut, cx)
        if r.variant != 0:
            return r
        return Adt('Poll', 0, [self.f(r.fields[0])])


class ServiceHandle:
    """one client's handle on the shared store (what CloudServer<SVC> owns as `service`)"""
    rust_type = 'ServiceHandle'

    def __init__(self, world, store, client):
        self.w, self.store, self.client = world, store, client
        self.page_size = world.page_size
        self.fault = None          # hook(I, kind, name) -> None | 'before' | 'after'

    def rust_call(self, trait, meth):
        fn = getattr(self, 'svc_' + meth, None)
        if fn is None:
            raise Unsupported('Service::' + meth)
        return lambda I, path, args: fn(I, *args[1:])

    def maybe_fault(self, I, kind, name):
        self.store.nreq += 1
        self.store.log.append((self.client, kind, name))
        if self.fault is None:
            return None
        k = self.fault(I, kind, name, self.store.nreq)
        if k is not None:
            self.w.note_fault(self.client, k)
        if k == 'before':
            return Err(I.mk_enum('Error', 'Server', ['injected service fault']))
        return k

    def _do(self, kind, name, effect):
        """request future: fault hook, then the effect at service time"""
        def th(I):
            k = self.maybe_fault(I, kind, name)
            if isinstance(k, Adt):
                return k
            r = effect(I)
            if k == 'after':
                return Err(I.mk_enum('Error', 'Server', ['injected service fault (reply lost)']))
            return r
        return PendingOnce(th, kind)

    def svc_put(self, I, name, value):
        name, value = deref(name), PyVec(list(deref(value).items)) if isinstance(deref(value), (PyVec, PySlice)) else deref(value)

        def eff(I2):
            o = self.store.find(I2, name)
            if o is not None:
                o['value'] = value
            else:
                self.store.seq += 1
                self.store.objs.append({'name': name, 'value': value, 'creation': self.w.service_now(), 'seq': self.store.seq})
            return Ok(UNIT())
        return self._do('put', name, eff)

    def svc_get(self, I, name):
        name = deref(name)

        def eff(I2):
            o = self.store.find(I2, name)
            return Ok(Some(clone_val(o['value'])) if o is not None else NONE())
        return self._do('get', name, eff)

    def svc_del(self, I, name):
        name = deref(name)

        def eff(I2):
            o = self.store.find(I2, name)
            if o is not None:
                self.store.objs.remove(o)
            return Ok(UNIT())
        return self._do('del', name, eff)

    def svc_compare_and_swap(self, I, name, existing, new):
        name = deref(name)

        def eff(I2):
            o = self.store.find(I2, name)
            if existing.variant == 0:
                if o is not None:
                    return Ok(False)
                self.store.seq += 1
                self.store.objs.append({'name': name, 'value': new, 'creation': self.w.service_now(), 'seq': self.store.seq})
                return Ok(True)
            if o is None:
                return Ok(False)
            if not I2.ctx.branch(val_eq(o['value'], existing.fields[0])):
                return Ok(False)
            o['value'] = new
            return Ok(True)
        return self._do('compare_and_swap', name, eff)

    def svc_list(self, I, prefix):
        return Ready(BoxV(Listing(self, deref(prefix))))


class CloudWorld(World):
    def __init__(self, I, ctx, page_size=100, concrete_ids=False, concrete_now=None):
        super().__init__(I, ctx)
        self.page_size = page_size
        self.concrete_ids = concrete_ids
        self.concrete_now = concrete_now
        self.nids = 0
        self.store = Store()
        self.uuids = []
        self.now_term = None
        I.env['new_uuid'] = self.new_uuid
        I.env['system_now'] = self.system_now
        self.secret = PyVec([115, 101, 99])         # b"sec"
        self.servers = {}
        # recording for the replay on the compiled crate
        self.phases, self.cur, self.racing = [], None, False

        def _pw(m):
            scn, pred = self.record(m)
            return {'cloud': {'scenario': scn, 'predicted': pred}}
        ctx.panic_witness = _pw
        self.client_ids = {}
        I.env['rand_observer'] = self.on_draw

    def new_uuid(self, I=None):
        if self.concrete_ids:
            # distinct, deliberately non-monotonic concrete ids (their order is not the subject of that check)
            self.nids += 1
            t = 1000 + (self.nids * 7919) % 997
            self.uuids.append(t)
            return t
        t = self.ctx.fresh_int('vid', 1, UUID_MAX)
        for u in self.uuids:
            self.ctx.assume(t != u)
        self.uuids.append(t)
        return t

    def known_uuid(self, u):
        self.uuids.append(u)

    def system_now(self, I=None):
        if self.concrete_now is not None:
            return self.concrete_now
        if self.now_term is None:
            self.now_term = self.ctx.fresh_int('now', 0, 4_000_000_000)
        return self.now_term

    def service_now(self):
        return self.system_now()

    # ------------------------------------------------------------------ recording (scenario + predicted observables)
    def cid(self, client):
        if client not in self.client_ids:
            self.client_ids[client] = len(self.client_ids)
        return self.client_ids[client]

    def _phase(self, kind):
        if self.racing:
            return self.cur
        if self.cur is None or self.cur['kind'] != kind:
            self.cur = {'kind': kind, 'log0': len(self.store.log), 'calls': [], 'tweaks': [], 'faults': []}
            self.phases.append(self.cur)
        return self.cur

    def client_of(self, srv):
        for cl, (s, h) in self.servers.items():
            if s is srv:
                return cl
        raise KeyError('unknown server handle')

    def _rec(self, srv, op, fut, **args):
        cl = self.client_of(srv)
        call = dict(client=cl, op=op, result=None, draws=[], prob=None, **args)
        if op == 'add_version':
            call['prob'] = srv.fields[2] if isinstance(srv, Adt) and len(srv.fields) > 2 else None
        if self.racing:
            self.cur['programs'].setdefault(cl, []).append(call)
        else:
            self._phase('seq')['calls'].append(call)
        self._last_call = getattr(self, '_last_call', {})
        self._last_call[cl] = call

        def done(r):
            call['result'] = r
            return r
        return Then(fut, done)

    def on_draw(self, I, terms):
        if len(terms) != 1:
            return
        sched = I.env.get('scheduler')
        lc = getattr(self, '_last_call', {})
        call = None
        if sched is not None and sched.current is not None:
            cl = sched.clients[sched.current] if sched.clients else sched.current
            call = lc.get(cl)
        elif not self.racing and self.cur is not None and self.cur.get('calls'):
            call = self.cur['calls'][-1]
        if call is not None:
            call['draws'].append(terms[0])

    def begin_race(self):
        self.cur = {'kind': 'race', 'log0': len(self.store.log), 'programs': {}, 'faults': [], 'schedule': None}
        self.phases.append(self.cur)
        self.racing = True
        return self.cur

    def end_race(self, sched):
        self.cur['schedule'] = [(sched.clients[t] if sched.clients else t) for t, _ in sched.trace]
        self.racing, self.cur = False, None

    def note_fault(self, client, how):
        ph = self.cur if self.cur is not None else self._phase('seq')
        n = len([1 for (cl, k, nm) in self.store.log[ph['log0']:] if cl == client and nm != 'salt'])
        ph['faults'].append({'client': client, 'nth': n, 'how': how})

    def tweak_put(self, name, value, creation):
        self.store.seq += 1
        self.store.objs.append({'name': name, 'value': value, 'creation': creation, 'seq': self.store.seq})
        self._phase('tweak')['tweaks'].append(('put', name, value, creation))

    def tweak_creation(self, o, t):
        o['creation'] = t
        self._phase('tweak')['tweaks'].append(('creation', o['name'], t))

    def record(self, m):
        """(scenario for tc-replay kind 'cloud', predicted observables) under the model m"""
        labels = {}

        def val(v):
            return show(v, m)

        def lab(v):
            x = val(v)
            if x == 0:
                return 0
            if x not in labels:
                labels[x] = len(labels) + 1
            return {'l': labels[x]}

        def hexid(v):
            x = val(v)
            return 0 if x == 0 else '%032x' % x

        def name_scn(n):
            n = deref(n)
            if isinstance(n, str):
                return n
            return [s if isinstance(s, str) else lab(s[1]) for s in n.segs]

        def name_txt(n):
            n = deref(n)
            if isinstance(n, str):
                return n
            out = ''
            for s in n.segs:
                if isinstance(s, str):
                    out += s
                else:
                    h = '%032x' % val(s[1])
                    out += h if s[0] == 'uuid' else '-'.join([h[:8], h[8:12], h[12:16], h[16:20], h[20:]])
            return out

        def blist(p):
            p = deref(p)
            return [val(b) for b in p.items]

        def res_of(call):
            r, op = call['result'], call['op']
            if r is None:
                return None
            if r.variant != 0:
                return {'err': '*'}
            v = r.fields[0]
            if op == 'add_version':
                res = v.fields[0]
                return {'ok': hexid(res.fields[0])} if res.variant == 0 else {'expected': hexid(res.fields[0])}
            if op == 'get_child_version':
                if v.variant == 0:
                    return {'none': True}
                return {'version': {'id': hexid(v.fields[0]), 'parent': hexid(v.fields[1]), 'payload': blist(v.fields[2])}}
            if op == 'get_snapshot':
                if v.variant == 0:
                    return {'none': True}
                t = v.fields[0]
                return {'snapshot': {'version': hexid(t.fields[0]), 'payload': blist(t.fields[1])}}
            return {'ok': True}

        def call_scn(call):
            d = {'client': self.cid(call['client']), 'op': call['op']}
            if 'parent' in call:
                d['parent'] = lab(call['parent'])
            if 'version' in call:
                d['version'] = lab(call['version'])
            if 'payload' in call:
                d['payload'] = blist(call['payload'])
            r = call['result']
            if call['op'] == 'add_version':
                # the implicit cleanup runs iff the random draw is below the handle's cleanup probability
                prob = val(call['prob']) if call['prob'] is not None else 0
                ran = bool(call['draws']) and val(call['draws'][0]) < prob
                d['cleanup_probability'] = 255 if ran else 0
                if r is not None and r.variant == 0 and r.fields[0].fields[0].variant == 0:
                    d['bind'] = lab(r.fields[0].fields[0].fields[0])['l']
            if call['op'] == 'get_child_version' and r is not None and r.variant == 0 and r.fields[0].variant == 1:
                x = lab(r.fields[0].fields[0])
                if x != 0:
                    d['bind'] = x['l']
            return d

        def log_of(ph, k):
            end = self.phases[k + 1]['log0'] if k + 1 < len(self.phases) else len(self.store.log)
            return [[self.cid(cl), kind, name_txt(nm)] for (cl, kind, nm) in self.store.log[ph['log0']:end] if deref(nm) != 'salt']

        def faults_of(ph):
            return [{'client': self.cid(f['client']), 'nth': f['nth'], 'how': f['how']} for f in ph['faults']]
        scn_ph, pred_ph = [], []
        for k, ph in enumerate(self.phases):
            if ph['kind'] == 'seq':
                calls = [cl for cl in ph['calls'] if cl['result'] is not None]
                scn_ph.append({'seq': [call_scn(cl) for cl in calls], 'faults': faults_of(ph)})
                pred_ph.append({'results': [res_of(cl) for cl in calls], 'log': log_of(ph, k)})
            elif ph['kind'] == 'tweak':
                tw = []
                for t in ph['tweaks']:
                    if t[0] == 'put':
                        tw.append({'put': {'name': name_scn(t[1]), 'value': blist(t[2]), 'creation': val(t[3])}})
                    elif t[0] == 'copy':
                        tw.append({'copy': {'from': name_scn(t[1]), 'to': name_scn(t[2])}})
                    elif t[0] == 'put_latest':
                        tw.append({'put_latest': lab(t[1])})
                    else:
                        tw.append({'creation': {'name': name_scn(t[1]), 't': val(t[2])}})
                scn_ph.append({'tweak': tw})
                pred_ph.append({'tweaked': len(tw)})
            else:
                progs = {str(self.cid(cl)): [call_scn(x) for x in calls] for cl, calls in ph['programs'].items()}
                scn_ph.append({'race': {'programs': progs, 'schedule': [self.cid(x) for x in (ph['schedule'] or [])], 'faults': faults_of(ph)}})
                if ph.get('open_in_race'):
                    scn_ph[-1]['race']['open_in_race'] = True
                pred_ph.append({'results': {str(self.cid(cl)): [res_of(x) for x in calls] for cl, calls in ph['programs'].items()},
                                'log': log_of(ph, k)})
        store = []
        for o in self.store.objs:
            nm = name_txt(o['name'])
            if nm == 'salt':
                continue
            if nm == 'latest':
                lv = self.latest()
                v = ('%032x' % val(lv)) if lv is not None else '?'
            else:
                v = None
            store.append({'name': nm, 'value': v, 'creation': val(o['creation'])})
        order = [l for _, l in sorted(labels.items())]
        scn = {'kind': 'cloud', 'now': val(self.system_now()), 'real_clock': self.concrete_now is None, 'page_size': self.page_size, 'secret': blist(self.secret),
               'phases': scn_ph, 'order': order}
        return scn, {'phases': pred_ph, 'store': store}

    def new_server(self, client, secret=None):
        self.cur = None if not self.racing else self.cur
        h = ServiceHandle(self, self.store, client)
        fut = self.I.call('CloudServer::new', [h, clone_val(secret or self.secret)])
        r = self.I.block_on(fut)
        if r.variant != 0:
            raise Panic('CloudServer::new failed: ' + repr(r)[:200])
        srv = r.fields[0]
        self.servers[client] = (srv, h)
        return srv, h

    # futures of the Server trait methods on the real CloudServer
    def f_add_version(self, srv, parent, payload):
        return self._rec(srv, 'add_version', self.I.call('<CloudServer as Server>::add_version', [mkref(srv), parent, payload]),
                         parent=parent, payload=clone_val(payload))

    def f_get_child_version(self, srv, parent):
        return self._rec(srv, 'get_child_version', self.I.call('<CloudServer as Server>::get_child_version', [mkref(srv), parent]), parent=parent)

    def f_add_snapshot(self, srv, vid, payload):
        return self._rec(srv, 'add_snapshot', self.I.call('<CloudServer as Server>::add_snapshot', [mkref(srv), vid, payload]),
                         version=vid, payload=clone_val(payload))

    def f_get_snapshot(self, srv):
        return self._rec(srv, 'get_snapshot', self.I.call('<CloudServer as Server>::get_snapshot', [mkref(srv)]))

    def f_open_in_race(self, client):
        """CloudServer::new as a recorded step of a racing program (its salt requests are scheduling points)"""
        h = ServiceHandle(self, self.store, client)
        fut = self.I.call('CloudServer::new', [h, clone_val(self.secret)])
        call = dict(client=client, op='new', result=None, draws=[], prob=None)
        self.cur['programs'].setdefault(client, []).append(call)
        self.cur['open_in_race'] = True

        def done(r):
            call['result'] = r
            if r.variant == 0:
                self.servers[client] = (r.fields[0], h)
            return r
        return Then(fut, done)

    def f_cleanup(self, srv):
        return self._rec(srv, 'cleanup', self.I.call('CloudServer::cleanup', [mkref(srv)]))

    def run(self, fut):
        return self.I.block_on(fut)

    # --- inspecting the store
    def latest(self):
        for o in self.store.objs:
            if o['name'] == 'latest':
                r = strings.uuid_parse(self.I, o['value'])
                return r.fields[0] if r.variant == 0 else None
        return None

    def version_objects(self):
        """[(parent, child, obj)] for every v-P-C object"""
        out = []
        for o in self.store.objs:
            n = o['name']
            if isinstance(n, SegStr) and len(n.segs) == 4 and n.segs[0] == 'v-':
                out.append((n.segs[1][1], n.segs[3][1], o))
        return out

    def snapshot_objects(self):
        out = []
        for o in self.store.objs:
            n = o['name']
            if isinstance(n, SegStr) and len(n.segs) == 2 and n.segs[0] == 's-':
                out.append((n.segs[1][1], o))
        return out

    def payload(self, n=1, label='pl'):
        """a small symbolic byte string"""
        return PyVec([self.ctx.fresh_int(label, 0, 255) for _ in range(n)])
