"""Replicas + reference server world used by the sync properties (C01-C04, C12, C14, C20)."""
import z3

from mirsym.explore import PathAbort, Panic
from mirsym.parser import Unsupported
from mirsym.values import (Adt, LV, Ref, BoxV, PyVec, PyMap, TokStr, NumStr, STRLEN, Some, NONE, Ok, Err, Tuple, UNIT,
                           clone_val, deref, mkref, is_sym)
from mirsym.models.core import val_eq, z_and, z_or, z_not, z_all, z_any
from mirsym.models import extern
from .common import World, ModelServer, dt, ref_apply, tasks_eq, show, json_decode_lenient

MAX_STR = 1_200_000
MIN_STR = 8      # room for the replay's unique "v<id>_" prefix


class SyncWorld(World):
    def __init__(self, I, ctx, nrep, uuids=(1,), props=('p', 'q'), ts_range=None, max_str=MAX_STR, keep_env=False):
        super().__init__(I, ctx, keep_env)
        self.max_str = max_str
        self.uuids, self.props = list(uuids), list(props)
        self.server = ModelServer(self)
        self.dbs = [self.new_taskdb() for _ in range(nrep)]
        ctx.panic_witness = self.witness
        self.nval = 0
        self.nts = 0
        self.ts_range = ts_range
        self.history = []          # replayable script
        self.val_terms = []
        self.ts_terms = []
        I.env['json_size'] = self.json_size

    # ---- symbolic leaves
    def fresh_value(self):
        self.nval += 1
        t = self.ctx.fresh_int('val')
        # a value is a non-empty token or the empty string (tags and dependencies are stored as "")
        from mirsym.models.strings import intern_tok
        self.ctx.assume(z3.Or(z3.And(t >= 1, t <= 1000, STRLEN(t) >= MIN_STR, STRLEN(t) <= self.max_str),
                              z3.And(t == intern_tok(''), STRLEN(t) == 0)))
        self.val_terms.append(t)
        return TokStr(t)

    def fresh_ts(self):
        self.nts += 1
        lo, hi = self.ts_range or (0, 4_000_000_000)
        t = self.ctx.fresh_int('ts', lo, hi)
        self.ts_terms.append(t)
        return t

    def json_size(self, I, doc, value):
        """byte length of a serialized SyncOp / Version: exact formula for the documented compact form with
        ASCII-alphanumeric strings, whole-second timestamps (the replay generates such data)"""
        return extern.doc_size(I, doc)

    # ---- operation generation (valid against the replica's own state, as the docs require)
    def present(self, db, u):
        for k, _ in self.tasks_of(db).items:
            if k == u:
                return True
        return False

    def _task(self, db, u):
        for k, v in self.tasks_of(db).items:
            if k == u:
                return v
        raise KeyError(u)

    def do_commit(self, r, nops, allow_delete=True):
        db = self.dbs[r]
        ops, descs = [], []
        # operations of one commit are generated one after the other against the evolving local state,
        # exactly as an application using TaskData would produce them
        scratch = [[k, clone_val(v)] for k, v in self.tasks_of(db).items]
        for i in range(nops):
            op, d = self._gen_op_on(scratch, allow_delete)
            ops.append(op)
            descs.append(d)
            ref_apply(self.I, scratch, op)
        res = self.commit(db, ops)
        if res.variant != 0:
            raise Panic('commit_operations returned Err: ' + repr(res))
        self.history.append({'commit': r, 'ops': descs})
        return ops

    def _gen_op_on(self, tasks, allow_delete):
        I, c = self.I, self.ctx
        opts = []
        for u in self.uuids:
            tm = None
            for k, v in tasks:
                if k == u:
                    tm = v
            if tm is not None:
                for p in self.props:
                    opts.append(('set', u, p, tm))
                    if any(kk == p for kk, _ in tm.items):
                        opts.append(('unset', u, p, tm))
                if allow_delete:
                    opts.append(('delete', u, None, tm))
            else:
                opts.append(('create', u, None, None))
        kinds = getattr(self, 'op_kinds', None)
        if kinds:
            opts = [x for x in opts if x[0] in kinds] or opts
        forced = getattr(self, 'force_op', None)
        if forced is not None:
            self.force_op = None
            o = [x for x in opts if x[:3] == tuple(forced)][0]
        else:
            o = opts[c.choose(len(opts), 'op')]
        kind, u, p, tm = o
        if kind == 'create':
            return I.mk_enum('Operation', 'Create', [u]), {'op': 'create', 'uuid': u}
        if kind == 'delete':
            return I.mk_enum('Operation', 'Delete', [u, clone_val(tm)]), {'op': 'delete', 'uuid': u}
        old = NONE()
        for kk, vv in tm.items:
            if kk == p:
                old = Some(clone_val(vv))
        ts = self.fresh_ts()
        if kind == 'set':
            v = self.fresh_value()
            return (I.mk_enum('Operation', 'Update', [u, p, old, Some(v), dt(ts)]),
                    {'op': 'update', 'uuid': u, 'prop': p, 'value': v, 'ts': ts})
        return (I.mk_enum('Operation', 'Update', [u, p, old, NONE(), dt(ts)]),
                {'op': 'update', 'uuid': u, 'prop': p, 'value': None, 'ts': ts})

    def do_sync(self, r, avoid_snapshots=False, expect_ok=True):
        n0 = len(self.server.chain)
        res = self.sync(self.dbs[r], self.server, avoid_snapshots, client=r)
        self.history.append({'sync': r, 'versions_added': len(self.server.chain) - n0})
        if expect_ok and res.variant != 0:
            self.ctx.prove(False, 'sync returned Err', self.witness, {'class': 'sync-err', 'err': repr(res.fields[0])[:200]})
            raise PathAbort()
        return res

    # ---- oracles
    def chain_ops(self, upto=None):
        """operations of the server's stored versions, in order (decoded with the lenient codec)"""
        out = []
        for parent, vid, payload in self.server.chain:
            js = payload.payload if hasattr(payload, 'payload') else payload
            version = js.src
            out.append((vid, [clone_val(o) for o in version.fields[0].items]))
            if upto is not None and vid == upto:
                break
        return out

    def chain_state(self, upto=None):
        tasks = []
        if upto == 0:
            return tasks
        for vid, ops in self.chain_ops(upto):
            for o in ops:
                ref_apply(self.I, tasks, o)
        return tasks

    def replica_tasks(self, r):
        return [[k, v] for k, v in self.tasks_of(self.dbs[r]).items]

    def check_invariant(self, r, label):
        """replica invariant: tasks == state of base_version + unsynced operations (reference semantics)"""
        db = self.dbs[r]
        base = self.base_version_of(db)
        st = self.chain_state(base)
        for op in self.unsynced_ops(db):
            ref_apply(self.I, st, clone_val(op))
        eq = tasks_eq(self.replica_tasks(r), st)
        return self.ctx.prove(eq, label, self.witness, {'class': 'invariant', 'replica': r})

    # ---- witness
    def witness(self, model):
        def ev(t):
            if t is None:
                return None
            if isinstance(t, TokStr):
                i = model.eval(t.id, model_completion=True).as_long()
                ln = model.eval(STRLEN(t.id), model_completion=True).as_long()
                if ln == 0:
                    return ''
                return {'id': i, 'len': ln}
            if isinstance(t, NumStr):
                return str(model.eval(t.v, model_completion=True).as_long()) if is_sym(t.v) else str(t.v)
            if is_sym(t):
                return model.eval(t, model_completion=True).as_long()
            return t
        steps = []
        for h in self.history:
            if 'commit' in h:
                ops = []
                for d in h['ops']:
                    e = dict(d)
                    if 'value' in e:
                        e['value'] = ev(e['value'])
                    if 'ts' in e:
                        e['ts'] = ev(e['ts'])
                    ops.append(e)
                steps.append({'commit': h['commit'], 'ops': ops})
            else:
                steps.append({k: (ev(v) if is_sym(v) else v) for k, v in h.items()})
        return {'replicas': len(self.dbs), 'steps': steps}

    def sample(self, extra=None, final_tasks=None, extra_steps=None):
        """a completed path: when the explorer wants a sample, pick one model of the path condition and
        return the concrete scenario plus the interpreter's predicted final states (replayed on the real
        build by the runner = translator validation)"""
        out = {'history_shape': [('commit%d/%d' % (h['commit'], len(h['ops']))) if 'commit' in h else
                                 (('sync%d' % h['sync']) if 'sync' in h else str({k: v for k, v in h.items()}))
                                 for h in self.history], 'versions': len(self.server.chain)}
        if extra:
            out.update(extra)
        if not self.ctx.want_sample:
            return out
        m = self.ctx.get_model()
        if m is None:
            return out
        out['scenario'] = dict(self.witness(m), kind='sync')
        if extra_steps:
            out['scenario']['steps'] = [s2 for s2 in out['scenario']['steps'] if 'orders' not in s2] + list(extra_steps)
        out['predicted'] = {'replicas': [self.concrete_tasklist(final_tasks, m) for r in range(len(self.dbs))] if final_tasks is not None
                            else [self.concrete_tasks(r, m) for r in range(len(self.dbs))],
                            'versions': len(self.server.chain),
                            'version_bytes': [show(p.payload.length if hasattr(p, 'payload') else None, m)
                                              for _, _, p in self.server.chain]}
        out['_encoded'] = sorted(self.I.encoded)
        out['_modelled'] = sorted(self.I.modelled)
        return out

    def concrete_tasks(self, r, model):
        return self.concrete_tasklist(self.tasks_of(self.dbs[r]).items, model)

    def concrete_tasklist(self, items, model):
        res = {}
        for u, tm in items:
            d = {}
            for k, v in tm.items:
                d[show(k, model)] = concrete_value(v, model)
            res[str(show(u, model))] = d
        return res


def concrete_value(v, model):
    if isinstance(v, NumStr):
        return str(model.eval(v.v, model_completion=True).as_long()) if is_sym(v.v) else str(v.v)
    if isinstance(v, TokStr):
        ln = model.eval(STRLEN(v.id), model_completion=True).as_long()
        if ln == 0:
            return ''
        return {'id': model.eval(v.id, model_completion=True).as_long(), 'len': ln}
    return show(v, model)


def judge_convergence(out):
    """property C01 on the real run's output: all replicas equal, and equal to the replay of the chain"""
    reps = out.get('replicas', [])
    cs = out.get('server', {}).get('chain_state')
    problems = []
    for i, r in enumerate(reps):
        if r['tasks'] != cs:
            problems.append({'replica': i, 'tasks': r['tasks'], 'chain_state': cs})
        if r.get('unsynced'):
            problems.append({'replica': i, 'unsynced_left': r['unsynced']})
    for i, st in enumerate(out.get('steps', [])):
        if 'err' in st:
            problems.append({'step': i, 'err': st['err']})
    if 'panic' in out:
        problems.append({'panic': out['panic']})
    return problems
