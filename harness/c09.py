"""C09 — the object-store server keeps one version chain under concurrent clients.

Two (thorough: three) real CloudServer instances over one shared model store run small programs of
add_version / get_child_version / add_snapshot; their coroutines are interleaved at every Service request
(and list page) by a scheduler whose choices are explored exhaustively (sleep sets over commuting reads)."""
import z3

from mirsym.explore import PathAbort, Panic
from mirsym.parser import Unsupported
from mirsym.values import Adt, clone_val, PyVec, Some, NONE
from mirsym.models.core import val_eq, z_and, z_all, z_any, z_not
from .common import get_interp, show, Scheduler
from . import cloudworld as _cw
from .cloudworld import CloudWorld, Then, ServiceHandle

PROPERTY = 'C09'
REPLAY_RETRIES = 2
LEVEL = 'model_checking'


class Program:
    """a client's sequential program of Server calls, as one pollable future"""

    def __init__(self, I, steps):
        self.I, self.steps, self.i, self.cur, self.results = I, steps, 0, None, []

    def poll_model(self, I, cx):
        while True:
            if self.cur is None:
                if self.i >= len(self.steps):
                    return Adt('Poll', 0, [self.results])
                self.cur = self.steps[self.i](self.results)
                self.i += 1
                if self.cur is None:
                    continue
            r = I.poll_future(self.cur, cx)
            if r.variant != 0:
                return r
            self.results.append(r.fields[0])
            self.cur = None


PROGRAMS = ['add', 'add-add', 'walk', 'add-snap']


class Harness:
    def __init__(self, nclients, programs, prechain, name, page_size=100, init_race=False):
        self.I = get_interp()
        self.nclients, self.programs, self.prechain, self.name, self.page_size = nclients, programs, prechain, name, page_size
        # init_race: the clients open the (empty, salt-less) store inside the race: CloudServer::new, with its salt
        # requests, is the first step of every program
        self.init_race = init_race

    def run_path(self, ctx):
        c, I = ctx, self.I
        w = CloudWorld(I, ctx, self.page_size, concrete_now=2_000_000_000)
        I.env['rand_byte'] = lambda I2, n, i: 200 if n == 1 else None      # no cleanup, urgency None (cleanup races: C10)
        servers = [None] * self.nclients if self.init_race else [w.new_server(k)[0] for k in range(self.nclients)]
        accepted = []         # (parent, id, payload, client) for every Ok reported
        submitted = {}        # id(payload list) -> payload, by parent for byte comparison
        returned = []         # versions handed out by get_child_version: (parent, id, bytes)
        # an existing chain made earlier by client 0
        parent = 0
        for k in range(c.choose(self.prechain + 1, 'prechain')):
            pl = w.payload(1)
            r = w.run(w.f_add_version(servers[0], parent, clone_val(pl)))
            vid = r.fields[0].fields[0].fields[0]
            accepted.append((parent, vid, pl, 0))
            parent = vid
        l0 = parent
        progs, kinds = [], []
        for k in range(self.nclients):
            kind = self.programs[c.choose(len(self.programs), 'program')]
            kinds.append(kind)
            progs.append(self.mk_program(w, servers[k], k, kind, l0, accepted, returned))
        if self.init_race:
            c.cover('clients open an empty store concurrently')
        sched = Scheduler(I, ctx, clients=list(range(self.nclients)))
        sched.READS = ('get', 'list')
        w.begin_race()
        results = sched.run(progs, 'svc', max_steps=400)
        w.end_race(sched)
        if any(k.startswith('add') for k in kinds) and len([k for k in kinds if k.startswith('add')]) >= 2:
            c.cover('two clients adding on the same parent')

        def wit(m):
            scn, pred = w.record(m)
            return {'programs': kinds, 'schedule': [(t, lab) for t, lab in sched.trace], 'accepted': show([(a[0], a[1], a[3]) for a in accepted], m),
                    'cloud': {'scenario': scn, 'predicted': pred}}
        # --- every request of every program succeeded at the protocol level
        for k, res in enumerate(results):
            for r in res:
                if r is None:
                    continue
                if r.variant != 0:
                    c.prove(False, 'a server call returned Err under concurrency', wit, {'class': 'err', 'err': repr(r)[:160]})
                    return None
        # --- at most one accepted child per parent
        for i in range(len(accepted)):
            for j in range(i + 1, len(accepted)):
                if not c.prove(z_not(val_eq(accepted[i][0], accepted[j][0])), 'two versions were accepted on the same parent', wit,
                               {'class': 'two-children', 'clients': [accepted[i][3], accepted[j][3]]}):
                    return None
        # --- final chain: walk back from latest over the stored version objects
        latest = w.latest()
        vobjs = w.version_objects()
        chain = []
        cur = latest
        guard = 0
        while cur is not None and guard < 12:
            guard += 1
            hit = None
            for p, ch, o in vobjs:
                if c.branch(val_eq(ch, cur)):
                    hit = (p, ch, o)
                    break
            if hit is None:
                break
            chain.append(hit)
            cur = hit[0]
        on_chain = lambda vid: z_any(val_eq(vid, ch) for _, ch, _ in chain)   # noqa
        for p, vid, pl, k in accepted:
            if not c.prove(on_chain(vid), 'a version reported as accepted is not on the chain reachable from latest', wit,
                           {'class': 'accepted-lost', 'client': k}):
                return None
        if len(accepted) >= 2:
            c.cover('several accepted versions')
        if any(r.fields[0].fields[0].variant == 1 for res in results for r in res if is_add_result(r)):
            c.cover('a racing add_version was rejected')
        # --- everything handed out lies on the final chain with the submitted bytes
        for p, vid, data in returned:
            ok = z_any(z_and(val_eq(vid, a[1]), z_and(val_eq(p, a[0]), val_eq(data, a[2]))) for a in accepted)
            if not c.prove(z_and(ok, on_chain(vid)), 'a client was handed a version that is not on the final chain (or with other bytes)', wit,
                           {'class': 'phantom-version'}):
                return None
        # --- a fresh client walks the chain and sees exactly the accepted versions
        srv = w.new_server(9)[0]
        I.env.pop('scheduler', None)
        root = chain[-1][0] if chain else 0
        cur = root
        seen = 0
        for _ in range(len(accepted) + 2):
            r = w.run(w.f_get_child_version(srv, cur))
            if r.variant != 0:
                c.prove(False, 'walking the chain failed after the race', wit, {'class': 'walk-err', 'err': repr(r)[:120]})
                return None
            g = r.fields[0]
            if g.variant == 0:
                break
            ok = z_any(z_and(val_eq(g.fields[0], a[1]), val_eq(g.fields[2], a[2])) for a in accepted)
            if not c.prove(ok, 'the chain served after the race contains a version nobody was told was accepted', wit, {'class': 'walk-phantom'}):
                return None
            seen += 1
            cur = g.fields[0]
        if not c.prove(seen == len(accepted), 'the chain served after the race does not contain every accepted version', wit,
                       {'class': 'walk-missing', 'seen': seen, 'accepted': len(accepted)}):
            return None
        out = {'programs': kinds, 'requests': len(sched.trace), 'accepted': len(accepted)}
        if c.want_sample:
            out['schedule'] = [t for t, _ in sched.trace]
            m = c.get_model()
            if m is not None:
                out['scenario'], out['predicted'] = w.record(m)
            out['_encoded'] = sorted(I.encoded)
            out['_modelled'] = sorted(I.modelled)
        return out

    def mk_program(self, w, srv0, k, kind, l0, accepted, returned):
        I = self.I
        holder = {'srv': srv0}

        class _S:
            """the client's server value at the time a step runs (created by the program's first step in init_race mode)"""
        srv = None

        def open_store(results):
            def opened(r):
                if r.variant == 0:
                    holder['srv'] = r.fields[0]
                return None          # not a Server-trait result
            return Then(w.f_open_in_race(k), opened)

        def add(parent_of):
            def step(results):
                parent = parent_of(results)
                if parent is None or holder['srv'] is None:
                    return None
                pl = w.payload(1)
                fut = w.f_add_version(holder['srv'], parent, clone_val(pl))
                return Then(fut, lambda r: record_add(r, parent, pl))
            return step

        def record_add(r, parent, pl):
            if r.variant == 0:
                res = r.fields[0].fields[0]
                if res.variant == 0:
                    accepted.append((parent, res.fields[0], pl, k))
            return r

        def gcv(parent_of):
            def step(results):
                parent = parent_of(results)
                if parent is None:
                    return None
                if holder['srv'] is None:
                    return None
                fut = w.f_get_child_version(holder['srv'], parent)
                return Then(fut, lambda r: record_get(r))
            return step

        def record_get(r):
            if r.variant == 0 and r.fields[0].variant == 1:
                g = r.fields[0]
                returned.append((g.fields[1], g.fields[0], g.fields[2]))
            return r

        def last_ok_id(results):
            for r in reversed(results):
                if r is not None and is_add_result(r):
                    res = r.fields[0].fields[0]
                    if res.variant == 0:
                        return res.fields[0]
            return None

        def last_child(results):
            for r in reversed(results):
                if r is not None and r.variant == 0 and isinstance(r.fields[0], Adt) and r.fields[0].name == 'GetVersionResult' and r.fields[0].variant == 1:
                    return r.fields[0].fields[0]
            return None
        if kind == 'add':
            steps = [add(lambda rs: l0)]
        elif kind == 'add-add':
            steps = [add(lambda rs: l0), add(lambda rs: last_ok_id(rs) if last_ok_id(rs) is not None else l0)]
        elif kind == 'walk':
            steps = [gcv(lambda rs: l0), gcv(lambda rs: last_child(rs))]
        else:
            def snap(results):
                vid = last_ok_id(results)
                if vid is None:
                    return None
                return w.f_add_snapshot(holder['srv'], vid, w.payload(1))
            steps = [add(lambda rs: l0), snap]
        if self.init_race:
            steps = [open_store] + steps
        return Program(I, steps)


def replay_scenario(v):
    if v['witness'].get('engine_judged'):
        return {'kind': 'noop'}
    return _cw.replay_scenario(v)


def replay_judge(scn, out, v):
    if v['witness'].get('engine_judged'):
        return True, {'note': 'judged by the engine: a CloudServer::new that races inside a schedule is not expressible in the replay scenario format'}
    return _cw.replay_judge(scn, out, v)


def validate_samples(s, out):
    return _cw.validate_samples(s, out)


def is_add_result(r):
    return r is not None and r.variant == 0 and isinstance(r.fields[0], Adt) and r.fields[0].name == 'tuple' and len(r.fields[0].fields) == 2


def required_covers(tier):
    return ['two clients adding on the same parent', 'several accepted versions', 'a racing add_version was rejected', 'clients open an empty store concurrently']


def configs(tier):
    if tier == 'quick':
        return [dict(name='2clients', factory=lambda: Harness(2, ['add', 'walk', 'add-snap'], 1, 'q'),
                     bounds='2 clients, each one program out of {add_version; walk two child versions; add_version then add_snapshot} starting from a chain of 0-1 versions; every interleaving of their Service requests'),
                dict(name='3clients', factory=lambda: Harness(3, ['add', 'walk'], 0, 'q3'),
                     bounds='3 clients, each add_version or a walk of two child versions, empty store; every interleaving'),
                dict(name='init-race', factory=lambda: Harness(2, ['add', 'walk'], 0, 'qi', init_race=True),
                     bounds='2 clients that first open the empty, salt-less store (CloudServer::new: salt read, compare-and-swap, re-read) and then add_version or walk; every interleaving of all Service requests incl. the salt requests')]
    return [dict(name='2clients-all', factory=lambda: Harness(2, PROGRAMS, 1, 't'), bounds='2 clients, all four programs incl. two consecutive add_versions', time_limit_s=3300),
            dict(name='2clients-page1', factory=lambda: Harness(2, ['add', 'walk'], 1, 'p1', page_size=1), bounds='list page size 1: every page fetch is a scheduling point', time_limit_s=3300),
            dict(name='3clients', factory=lambda: Harness(3, ['add', 'walk'], 0, 't3'), bounds='3 clients, add_version or walk', time_limit_s=3300)]


ASSUMPTIONS = [
    'interleaving granularity = one Service request (get / put / del / compare_and_swap / list page); the model store executes each request atomically, compare_and_swap included (the Service contract)',
    'cleanup is disabled here (its races are C10); snapshot urgency draw fixed; ring primitives idealised; version ids fresh, distinct, symbolic order',
    'init-race configuration: the clients open the salt-less store inside the schedule; the replay removes the salt and runs CloudServer::new as the first step of each racing program (salts are random on both sides and are not compared)',
    'replay: programs and schedule are run on the compiled CloudServer over the gated hook store; confirmed when results, request log and store equal the prediction (ids up to renaming)',
]
EXPLANATION = ('programs forked, schedules forked exhaustively (sleep sets over get/list), ids and payload bytes symbolic; after every '
               'schedule z3 must refute: two accepted children of one parent, an accepted version off the chain reachable from latest, '
               'a handed-out version that is off the final chain or carries other bytes, a served chain that differs from the accepted versions')
