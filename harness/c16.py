"""C16 — storage equivalence: the in-memory storage against the documented StorageTxn contract.

The SQLite half of the equivalence (SQL executed by the C engine, reopen, schema upgrade, read-only mode)
cannot be executed symbolically and is outside.  What is decided: the real InMemoryStorage transaction code
(MIR) against an executable statement of the contract in src/storage/mod.rs — the same reference the SQLite
implementation is written to — for every sequence of calls inside the bound, every return value compared."""
import z3

from mirsym.parser import Unsupported

from mirsym.explore import PathAbort, Panic
from mirsym.values import Adt, clone_val, PyMap, PyVec, Some, NONE, mkref, TokStr, Ref, LV, BoxV, deref, STRLEN
from mirsym.models.core import val_eq, z_and, z_all, z_any
from .common import get_interp, show, dt, World, tasks_eq

PROPERTY = 'C16'
LEVEL = 'other'


def conc(x, m):
    """concrete JSON form of a logged call argument"""
    if isinstance(x, TokStr):
        return {'id': m.eval(x.id, model_completion=True).as_long(), 'len': m.eval(STRLEN(x.id), model_completion=True).as_long()}
    if isinstance(x, PyMap):
        return {k: conc(v, m) for k, v in x.items}
    if isinstance(x, Adt) and x.name == 'Operation':
        if x.variant == 0:
            return {'op': 'create', 'uuid': x.fields[0]}
        if x.variant == 3:
            return {'op': 'undopoint'}
        if x.variant == 2:
            ts = x.fields[4].fields[0]
            return {'op': 'update', 'uuid': x.fields[0], 'prop': x.fields[1], 'old_value': None,
                    'value': conc(x.fields[3].fields[0], m) if x.fields[3].variant else None,
                    'ts': ts if isinstance(ts, int) else m.eval(ts, model_completion=True).as_long()}
        return {'op': 'delete', 'uuid': x.fields[0], 'old_task': {}}
    if isinstance(x, (list, tuple)):
        return [conc(y, m) for y in x]
    return x


class RefStore:
    """executable statement of the StorageTxn contract (src/storage/mod.rs doc comments)"""

    def __init__(self):
        self.tasks = []              # [[uuid, PyMap]]
        self.base = 0
        self.ops = []                # [[synced, op]]
        self.ws = [None]

    def clone(self):
        r = RefStore()
        r.tasks = [[u, clone_val(t)] for u, t in self.tasks]
        r.base = self.base
        r.ops = [[s, clone_val(o)] for s, o in self.ops]
        r.ws = list(self.ws)
        return r

    def find(self, u):
        for i, (k, _) in enumerate(self.tasks):
            if k == u:
                return i
        return None


def op_uuid(op):
    return None if op.variant == 3 else op.fields[0]


class ScriptedCtx:
    """the exploration context with the harness-level choices of the first calls fixed by a script (one dict of
    label -> value per call): lets a configuration start from a given history and explore every continuation"""

    def __init__(self, ctx, script):
        object.__setattr__(self, '_ctx', ctx)
        object.__setattr__(self, '_script', [dict(d) for d in script])
        object.__setattr__(self, '_cur', None)

    def choose(self, n, label=''):
        if label == 'call':
            object.__setattr__(self, '_cur', self._script.pop(0) if self._script else None)
        cur = self._cur
        if cur is not None and label in cur:
            return cur[label]
        if cur is not None:
            raise Unsupported('scripted prefix does not fix the choice ' + label)
        return self._ctx.choose(n, label)

    def __getattr__(self, k):
        return getattr(self._ctx, k)

    def __setattr__(self, k, v):
        setattr(self._ctx, k, v)


CALLS = ['get_task', 'create_task', 'set_task', 'delete_task', 'all_tasks', 'base_version', 'set_base_version',
         'add_operation', 'remove_operation', 'unsynced_operations', 'get_task_operations', 'sync_complete',
         'get_working_set', 'add_to_working_set', 'set_working_set_item', 'clear_working_set', 'get_pending_tasks',
         'is_empty', 'commit', 'abandon']
# a task with a synchronized operation: create_task(1); add_operation(Create 1); sync_complete
PREFIX_SYNCED_TASK = [{'call': CALLS.index('create_task'), 'uuid': 0}, {'call': CALLS.index('add_operation'), 'uuid': 0, 'opkind': 0},
                      {'call': CALLS.index('sync_complete')}]


class Harness:
    def __init__(self, ncalls, name, replay_one_in=1, prefix=()):
        self.I = get_interp()
        self.ncalls, self.name = ncalls, name
        self.prefix = list(prefix)
        self.replay_one_in = replay_one_in      # share of the distinct call sequences replayed on both compiled backends

    def call(self, txn, meth, *args):
        I = self.I
        fut = I.call('<dyn StorageTxn + Send as StorageTxn>::' + meth, [txn] + list(args))
        return I.block_on(fut)

    def run_path(self, ctx):
        c, I = (ScriptedCtx(ctx, self.prefix) if self.prefix else ctx), self.I
        w = World(I, ctx)
        st = w.new_storage()
        cell = [st]
        ref = RefStore()
        committed = ref.clone()
        log = []
        out_of_contract = False

        def open_txn():
            r = I.block_on(I.call('<InMemoryStorage as Storage>::txn', [Ref(LV(cell, 0))]))
            if r.variant != 0:
                raise Panic('txn() failed')
            return Ref(LV(r.fields[0].cell, 0))
        txn = open_txn()
        nval = [0]

        def fresh_val():
            t = c.fresh_int('val')
            c.assume(z3.And(t >= 1, t <= 1000, STRLEN(t) >= 8, STRLEN(t) <= 32))
            return TokStr(t)

        def fail(msg, cls, **info):
            c.prove(False, msg, lambda m: {'calls': conc(log, m)}, dict(info, **{'class': cls}))

        calls = ['get_task', 'create_task', 'set_task', 'delete_task', 'all_tasks', 'base_version', 'set_base_version',
                 'add_operation', 'remove_operation', 'unsynced_operations', 'get_task_operations', 'sync_complete',
                 'get_working_set', 'add_to_working_set', 'set_working_set_item', 'clear_working_set', 'get_pending_tasks',
                 'is_empty', 'commit', 'abandon']
        for step in range(len(self.prefix) + self.ncalls):
            meth = calls[c.choose(len(calls), 'call')]
            if meth in ('get_task', 'create_task', 'delete_task', 'get_task_operations', 'add_to_working_set'):
                u = 1 + c.choose(2, 'uuid')
            if meth == 'get_task':
                r = self.call(txn, meth, u)
                i = ref.find(u)
                exp = Some(clone_val(ref.tasks[i][1])) if i is not None else NONE()
                log.append((meth, u))
                if not (r.variant == 0 and c.prove(val_eq(r.fields[0], exp), 'get_task result', lambda m: {'calls': conc(log, m)}, {'class': 'get_task'})):
                    return None
            elif meth == 'create_task':
                r = self.call(txn, meth, u)
                i = ref.find(u)
                log.append((meth, u))
                if i is None:
                    ref.tasks.append([u, PyMap([])])
                if not (r.variant == 0 and r.fields[0] is (i is None)):
                    return fail('create_task must report whether the task was created', 'create_task', got=repr(r))
            elif meth == 'set_task':
                u = 1 + c.choose(2, 'uuid')
                tm = PyMap([['p', fresh_val()]] if c.choose(2, 'nonempty') else [])
                r = self.call(txn, meth, u, clone_val(tm))
                log.append((meth, u, tm))
                i = ref.find(u)
                if i is None:
                    ref.tasks.append([u, tm])
                else:
                    ref.tasks[i][1] = tm
                if r.variant != 0:
                    return fail('set_task failed', 'set_task')
            elif meth == 'delete_task':
                r = self.call(txn, meth, u)
                i = ref.find(u)
                log.append((meth, u))
                if i is not None:
                    ref.tasks.pop(i)
                if not (r.variant == 0 and r.fields[0] is (i is not None)):
                    return fail('delete_task must report whether the task existed', 'delete_task', got=repr(r))
            elif meth == 'all_tasks':
                r = self.call(txn, meth)
                log.append((meth,))
                got = [[t.fields[0], t.fields[1]] for t in r.fields[0].items]
                if not c.prove(tasks_eq(got, ref.tasks), 'all_tasks (order ignored)', lambda m: {'calls': conc(log, m)}, {'class': 'all_tasks'}):
                    return None
                r2 = self.call(txn, 'all_task_uuids')
                if sorted(r2.fields[0].items) != sorted(u2 for u2, _ in ref.tasks):
                    return fail('all_task_uuids', 'all_task_uuids')
            elif meth == 'base_version':
                r = self.call(txn, meth)
                log.append((meth,))
                if not (r.variant == 0 and r.fields[0] == ref.base):
                    return fail('base_version', 'base_version', got=repr(r))
            elif meth == 'set_base_version':
                v = 7 + c.choose(2, 'version')
                r = self.call(txn, meth, v)
                log.append((meth, v))
                ref.base = v
            elif meth == 'add_operation':
                u = 1 + c.choose(2, 'uuid')
                k = c.choose(3, 'opkind')
                if k == 0:
                    op = I.mk_enum('Operation', 'Create', [u])
                elif k == 1:
                    op = I.mk_enum('Operation', 'Update', [u, 'p', NONE(), Some(fresh_val()), dt(c.fresh_int('ts', 0, 10))])
                else:
                    op = I.mk_enum('Operation', 'UndoPoint', [])
                r = self.call(txn, meth, clone_val(op))
                log.append((meth, op))
                ref.ops.append([False, op])
                if r.variant != 0:
                    return fail('add_operation failed', 'add_operation')
            elif meth == 'remove_operation':
                # argument: the last stored operation, or a different one
                cands = [o for _, o in ref.ops[-1:]] + [I.mk_enum('Operation', 'Create', [9])]
                op = cands[c.choose(len(cands), 'which-op')]
                r = self.call(txn, meth, clone_val(op))
                log.append((meth, op))
                ok_exp = False
                if ref.ops and not ref.ops[-1][0]:
                    same = val_eq(ref.ops[-1][1], op)
                    ok_exp = c.branch(same) if not isinstance(same, bool) else same
                if ok_exp:
                    ref.ops.pop()
                if (r.variant == 0) != bool(ok_exp):
                    return fail('remove_operation must succeed exactly for the most recent, unsynchronized operation', 'remove_operation', got=repr(r)[:80])
            elif meth == 'unsynced_operations':
                r = self.call(txn, meth)
                log.append((meth,))
                exp = PyVec([clone_val(o) for s, o in ref.ops if not s])
                if not c.prove(val_eq(r.fields[0], exp), 'unsynced_operations', lambda m: {'calls': conc(log, m)}, {'class': 'unsynced_operations'}):
                    return None
                r2 = self.call(txn, 'num_unsynced_operations')
                if r2.fields[0] != len(exp.items):
                    return fail('num_unsynced_operations', 'num_unsynced_operations')
            elif meth == 'get_task_operations':
                r = self.call(txn, meth, u)
                log.append((meth, u))
                exp = PyVec([clone_val(o) for s, o in ref.ops if op_uuid(o) == u])
                if not c.prove(val_eq(r.fields[0], exp), 'get_task_operations', lambda m: {'calls': conc(log, m)}, {'class': 'get_task_operations'}):
                    return None
            elif meth == 'sync_complete':
                r = self.call(txn, meth)
                log.append((meth,))
                # all operations become synchronized; the storage may drop operations of tasks that no longer exist
                present = {u2 for u2, _ in ref.tasks}
                ref.ops = [[True, o] for s, o in ref.ops if op_uuid(o) is None or op_uuid(o) in present]
            elif meth == 'get_working_set':
                r = self.call(txn, meth)
                log.append((meth,))
                got = [x.fields[0] if x.variant else None for x in r.fields[0].items]
                if got != ref.ws:
                    return fail('get_working_set', 'get_working_set', got=got, expected=ref.ws)
            elif meth == 'add_to_working_set':
                r = self.call(txn, meth, u)
                log.append((meth, u))
                ref.ws.append(u)
                exp_idx = len(ref.ws) - 1
                if not (r.variant == 0 and r.fields[0] == exp_idx):
                    return fail('add_to_working_set must return the (one-based) index of the new item', 'add_to_working_set-index',
                                got=repr(r.fields[0]), expected=exp_idx)
            elif meth == 'set_working_set_item':
                idx = c.choose(4, 'index')
                val = [None, 1, 2][c.choose(3, 'item')]
                r = self.call(txn, meth, idx, Some(val) if val is not None else NONE())
                log.append((meth, idx, val))
                if idx >= len(ref.ws):
                    # "cannot add a new item": an index outside the working set is outside the documented contract, so the
                    # two backends are not compared on such sequences (SQLite deletes/inserts the row, in-memory refuses)
                    out_of_contract = True
                    if r.variant == 0:
                        return fail('set_working_set_item must not add a new item', 'set_working_set_item-range')
                else:
                    if r.variant != 0:
                        return fail('set_working_set_item failed inside the working set', 'set_working_set_item')
                    ref.ws[idx] = val
                    while len(ref.ws) > 1 and ref.ws[-1] is None:
                        ref.ws.pop()
            elif meth == 'clear_working_set':
                r = self.call(txn, meth)
                log.append((meth,))
                ref.ws = [None]
            elif meth == 'get_pending_tasks':
                r = self.call(txn, meth)
                log.append((meth,))
                exp = []
                for u2 in ref.ws:
                    if u2 is not None and ref.find(u2) is not None:
                        exp.append([u2, ref.tasks[ref.find(u2)][1]])
                got = [[t.fields[0], t.fields[1]] for t in r.fields[0].items]
                if len(got) != len(exp) or not c.prove(tasks_eq(got, exp) if len({g[0] for g in got}) == len(got) else val_eq(PyVec([PyVec(g) for g in got]), PyVec([PyVec(e) for e in exp])),
                                                       'get_pending_tasks', lambda m: {'calls': conc(log, m)}, {'class': 'get_pending_tasks'}):
                    if len(got) != len(exp):
                        fail('get_pending_tasks', 'get_pending_tasks', got=len(got), expected=len(exp))
                    return None
            elif meth == 'is_empty':
                r = self.call(txn, meth)
                log.append((meth,))
                exp = (not ref.tasks) and ref.ws == [None] and ref.base == 0 and not [1 for s, o in ref.ops if not s]
                if not (r.variant == 0 and r.fields[0] is exp):
                    return fail('is_empty', 'is_empty', got=repr(r), expected=exp)
            elif meth == 'commit':
                r = self.call(txn, meth)
                log.append((meth,))
                committed = ref.clone()
                txn = open_txn()
                c.cover('commit then reopen')
            elif meth == 'abandon':
                log.append((meth,))
                ref = committed.clone()
                txn = open_txn()
                c.cover('abandon then reopen')
        # final visible state after abandoning the open transaction
        ref = committed.clone()
        txn = open_txn()
        r = self.call(txn, 'all_tasks')
        got = [[t.fields[0], t.fields[1]] for t in r.fields[0].items]
        if not c.prove(tasks_eq(got, ref.tasks), 'visible tasks after commit/abandon', lambda m: {'calls': conc(log, m)}, {'class': 'visibility'}):
            return None
        r = self.call(txn, 'get_working_set')
        if [x.fields[0] if x.variant else None for x in r.fields[0].items] != ref.ws:
            return fail('visible working set after commit/abandon', 'visibility-ws')
        out = {'calls': [l[0] for l in log]}
        # every distinct call sequence (method + structural arguments; data values left to the model) is replayed
        # once on both compiled backends: the SQLite side of the equivalence cannot be executed symbolically
        shape = repr([(l[0],) + tuple((x.variant if hasattr(x, 'variant') else x) for x in l[1:]) for l in log])
        import zlib
        pick = self.replay_one_in == 1 or (zlib.crc32(shape.encode()) + int(c.opts.get('seed', 0))) % self.replay_one_in == 0
        if c.want_sample and pick and not out_of_contract and shape not in SEEN_SHAPES:
            SEEN_SHAPES.add(shape)
            m = c.get_model()
            if m is not None:
                out['scenario'] = {'kind': 'model', 'what': 'storage_calls', 'calls': conc(log, m)}
                out['shape'] = shape
            out['_encoded'] = sorted(I.encoded)
            out['_modelled'] = sorted(I.modelled)
        return out


SEEN_SHAPES = set()          # per worker process
MAX_REPLAYED_SAMPLES = 100000
SAMPLE_FAILURE_IS_VIOLATION = True      # two compiled backends disagreeing on a call sequence IS the violation of C16
SAMPLE_KEY = 'shape'


def replay_scenario(v):
    if 'scenario' in v.get('witness', {}):
        return v['witness']['scenario']
    return {'kind': 'model', 'what': 'storage_calls', 'calls': v['witness']['calls']}


def compare_backends(out):
    """the statement of C16 itself on the compiled crate: both storages return the same result for every call"""
    probs = []
    if 'panic' in out:
        return [{'panic': out['panic']}]
    a, b = out.get('inmemory', []), out.get('sqlite', [])
    if len(a) != len(b):
        probs.append({'lengths': [len(a), len(b)]})
    for i, (x, y) in enumerate(zip(a, b)):
        if x != y:
            probs.append({'call_index': i, 'inmemory': x, 'sqlite': y})
    return probs


def replay_judge(scn, out, v):
    probs = compare_backends(out)
    for pr in probs:
        if 'call_index' in pr:
            pr['call'] = scn['calls'][pr['call_index']] if pr['call_index'] < len(scn['calls']) else None
    return bool(probs), probs[:3]


def validate_samples(sample, out):
    probs = compare_backends(out)
    if probs:
        return False, {'backends_disagree': probs[:2], 'calls': sample['scenario']['calls']}
    return True, None


def required_covers(tier):
    return ['commit then reopen', 'abandon then reopen']


def configs(tier):
    n = 3 if tier == 'quick' else 4
    one_in = 1 if tier == 'quick' else 48
    return [dict(name=f'calls{n}', factory=lambda: Harness(n, 'c', one_in),
                 bounds=f'every sequence of {n} StorageTxn calls (20 methods incl. commit / abandon+reopen; 2 task ids, 1 property, symbolic values) on an initially empty store; '
                        + ('every' if one_in == 1 else f'one in {one_in} (chosen by VERIF_SEED) of the') + ' distinct contract-respecting call sequences also replayed on the compiled InMemoryStorage and SqliteStorage and compared',
                 time_limit_s=600 if tier == 'quick' else 3300, opts={'max_samples': 1 << 30}),
            dict(name=f'synced-task+calls{n}', factory=lambda: Harness(n, 'p', one_in, prefix=PREFIX_SYNCED_TASK),
                 bounds=f'from a store holding one task with a synchronized operation (create_task, add_operation(Create), sync_complete): every sequence of {n} further calls, '
                        'replayed on both compiled backends like the first configuration (added after round-6 seed C16-agent-6 needed two sync_complete calls)',
                 time_limit_s=600 if tier == 'quick' else 3300, opts={'max_samples': 1 << 30})]


ASSUMPTIONS = [
    'claimed for the in-memory side against the documented contract only; the SQLite side (equivalence itself, reopen, schema upgrade, read-only) is SQL executed by the C engine and is outside',
    'sync_complete may drop the operations of tasks that no longer exist (documented as permitted cleanup; the in-memory storage does so)',
    'collections compared without regard to order; HashMap as association list',
    'counterexamples and every distinct contract-respecting call sequence of the bound (thorough: one in 48, chosen by VERIF_SEED) are replayed on the compiled crate against BOTH real backends (InMemoryStorage and SqliteStorage in a scratch directory); a disagreement between them is reported as a violation',
    'set_working_set_item with an index outside the working set is outside the documented contract ("cannot add a new item"): the in-memory result is still checked (it must not add an item) but the two backends are not compared on such sequences',
]
EXPLANATION = ('every call sequence inside the bound is forked; task values / operation values are symbolic and compared by z3; each '
               'return value of the real Txn method is compared with the executable contract, and the state visible after commit or '
               'abandonment is compared at the end')
