"""C20 — expiration purges exactly the long-deleted tasks, everywhere.

Real code: Replica::expire_tasks (all_task_data, the two filters with str::parse / DateTime::from_timestamp,
TaskData::delete, commit), then sync / transform for the 'everywhere' clause."""
import z3

from mirsym.explore import PathAbort, Panic
from mirsym.values import Adt, PyVec, PyMap, ZStr, NumStr, TokStr, Some, NONE, clone_val, mkref, is_sym
from mirsym.models.core import val_eq, z_and, z_or, z_not, z_all
from mirsym.models import extern
from .common import get_interp, tasks_eq, show, dt, ModelServer
from .syncworld import SyncWorld

PROPERTY = 'C20'
LEVEL = 'other'
SIX_MONTHS = 180 * 86400
import time as _time
RUN_NOW = int(_time.time())
STATUSES = ['pending', 'completed', 'deleted', 'recurring', 'bogus']


JUNK = ['', 'abc', '12x', ' 12', '+5', '007', '-0', '1e5', '\uff11\uff12', '99999999999999999999', '-99999999999999999999']


class SelectHarness:
    """which tasks does expire_tasks delete, and how is the purge recorded"""

    def __init__(self, ntasks, name):
        self.I = get_interp()
        self.ntasks, self.name = ntasks, name

    def run_path(self, ctx):
        c, I = ctx, self.I
        w = SyncWorld(I, ctx, 0, (), ())
        # the clock: wall-clock time of this run (the compiled crate reads the real clock in the replay), with
        # symbolic sub-second part; a +-1 h band around the cutoff is excluded so both runs agree
        now = RUN_NOW
        I.env['now'] = lambda I2: dt(now, c.fresh_int('now_nanos', 0, 999_999_999))
        storage = w.new_storage()
        rep = I.call('Replica::new', [storage])
        db = rep.fields[0]
        tasks = w.tasks_of(db)
        spec = []
        for i in range(self.ntasks):
            u = 10 + i
            tm = PyMap([])
            k = c.choose(len(STATUSES) + 1, 'status')
            status = None if k == len(STATUSES) else STATUSES[k]
            if status is not None:
                tm.items.append(['status', status])
            shape = c.choose(2 + len(JUNK), 'modified-shape')
            mod = None
            if shape == 1:
                v = c.fresh_int('modified', -10 ** 30, 10 ** 30)
                c.assume(z3.Or(v < now - SIX_MONTHS - 3600, v > now - SIX_MONTHS + 3600))
                mod = NumStr(v)
                tm.items.append(['modified', mod])
            elif shape >= 2:
                mod = JUNK[shape - 2]
                tm.items.append(['modified', mod])
            tm.items.append(['description', 'x'])
            tasks.items.append([u, tm])
            spec.append((u, status, mod))
        before = [[k, clone_val(v)] for k, v in tasks.items]
        nops0 = len(w.operations_of(db).items)
        res = I.block_on(I.call('Replica::expire_tasks', [mkref(rep)]))
        if res.variant != 0:
            c.prove(False, 'expire_tasks returned Err', None, {'class': 'expire-err'})
            return None
        tasks = w.tasks_of(db)          # the commit replaced the stored data
        after = {k for k, _ in tasks.items}
        ops = [t.fields[1] for t in w.operations_of(db).items[nops0:]]
        ok = True
        expected_deleted = []
        for (u, status, mod), (_, tm_before) in zip(spec, before):
            if status == 'deleted' and isinstance(mod, NumStr):
                val = mod.v
                exp = z3.And(val >= -2 ** 63, val <= 2 ** 63 - 1, val >= extern.CHRONO_MIN_SECS, val <= extern.CHRONO_MAX_SECS,
                             val < now - SIX_MONTHS)
            elif status == 'deleted' and isinstance(mod, str):
                exp = python_expected({'status': status, 'modified': mod}, now)
            else:
                exp = False
            gone = u not in after
            prop = (exp == gone) if not isinstance(exp, bool) else (exp == gone)
            if not c.prove(prop, 'expire_tasks deleted a task it must keep, or kept one it must purge',
                           lambda m, u=u, status=status, mod=mod: {'uuid': u, 'status': status, 'modified': conc_mod(mod, m),
                                                                     'now': now, 'gone': u not in after},
                           {'class': 'selection', 'gone': gone, 'status': status}):
                return None
            if gone:
                c.cover('a task was purged')
                dels = [o for o in ops if o.variant == 1 and o.fields[0] == u]
                if not c.prove(len(dels) == 1 and val_eq(dels[0].fields[1], tm_before) is not False,
                               'purge not recorded as one Delete operation carrying the old task', None, {'class': 'recording'}):
                    return None
            else:
                if status == 'deleted' and mod is not None:
                    c.cover('a deleted task was kept')
                # untouched
                cur = [v for k, v in tasks.items if k == u][0]
                if not c.prove(val_eq(cur, tm_before), 'a kept task was modified by expire_tasks', None, {'class': 'kept-modified'}):
                    return None
        if len(ops) != sum(1 for u, _, _ in spec if u not in after):
            c.prove(False, 'expire_tasks recorded operations other than the deletions', None, {'class': 'extra-ops'})
            return None
        out = {'tasks': [(u, s, repr(m)) for u, s, m in spec], 'purged': sorted(u for u, _, _ in spec if u not in after)}
        if c.want_sample:
            m = c.get_model()
            if m is not None:
                out['scenario'] = {'kind': 'model', 'what': 'expire', 'now': now,
                                   'tasks': [{'uuid': u, 'status': s, 'modified': conc_mod(mod, m)} for u, s, mod in spec]}
                out['predicted'] = {'purged': out['purged']}
                out['_encoded'] = sorted(I.encoded)
                out['_modelled'] = sorted(I.modelled)
        return out


def conc_mod(mod, m):
    if isinstance(mod, NumStr):
        return str(m.eval(mod.v, model_completion=True).as_long())
    return mod


class SyncHarness:
    """the purge is an ordinary deletion that synchronizes; a concurrent edit does not bring the task back"""

    def __init__(self, name):
        self.I = get_interp()
        self.name = name

    def run_path(self, ctx):
        c, I = ctx, self.I
        w = SyncWorld(I, ctx, 2, (1,), ('p',), max_str=64)
        now = RUN_NOW
        I.env['now'] = lambda I2: dt(now, 0)
        # replica 0 is a Replica (expire_tasks lives there); its TaskDb doubles as w.dbs[0]
        rep = I.call('Replica::new', [w.new_storage()])
        w.dbs[0] = rep.fields[0]
        mod = c.fresh_int('modsecs', 0, now)
        c.assume(z3.Or(mod < now - SIX_MONTHS - 3600, mod > now - SIX_MONTHS + 3600))
        ops = [I.mk_enum('Operation', 'Create', [1]),
               I.mk_enum('Operation', 'Update', [1, 'status', NONE(), Some('deleted'), dt(0)]),
               I.mk_enum('Operation', 'Update', [1, 'modified', NONE(), Some(NumStr(mod)), dt(0)])]
        w.commit(w.dbs[0], ops)
        w.history.append({'commit': 0, 'ops': [{'op': 'create', 'uuid': 1},
                                               {'op': 'update', 'uuid': 1, 'prop': 'status', 'value': 'deleted', 'ts': 0},
                                               {'op': 'update', 'uuid': 1, 'prop': 'modified', 'value': NumStr(mod), 'ts': 0}]})
        w.do_sync(0)
        w.do_sync(1)
        # concurrent edit elsewhere
        w.do_commit(1, 1, allow_delete=False)
        res = I.block_on(I.call('Replica::expire_tasks', [mkref(rep)]))
        w.history.append({'expire': 0, 'now': now})
        if res.variant != 0:
            raise Panic('expire_tasks failed')
        expired = not w.present(w.dbs[0], 1)
        pre_dbs = [clone_val(d) for d in w.dbs]
        pre_chain = list(w.server.chain)
        finals = []
        for order in ([0, 1], [1, 0]):
            srv = ModelServer(w)
            srv.chain = list(pre_chain)
            dbs = [clone_val(d) for d in pre_dbs]
            for r in order + order:
                if w.sync(dbs[r], srv, client=r).variant != 0:
                    c.prove(False, 'sync failed', w.witness, {'class': 'sync-err'})
                    return None
            for r in (0, 1):
                present = any(k == 1 for k, _ in w.tasks_of(dbs[r]).items)
                if expired:
                    c.cover('expired task synced with a concurrent edit')
                    if not c.prove(not present, 'an expired task came back after sync with a concurrent edit', w.witness,
                                   {'class': 'resurrected', 'order': order, 'replica': r}):
                        return None
        w.history.append({'orders': [[0, 1], [1, 0]]})
        return w.sample({'expired': expired})


def replay_scenario(v):
    w = v.get('witness') or {}
    if isinstance(w, dict) and 'uuid' in w:
        return {'kind': 'model', 'what': 'expire', 'now': w['now'],
                'tasks': [{'uuid': w['uuid'], 'status': w['status'], 'modified': w['modified']}]}
    steps = [s for s in w.get('steps', []) if 'orders' not in s]
    out = []
    for o in ([0, 1], [1, 0]):
        out.append(dict(w, kind='sync', steps=steps + [{'sync': r} for r in (o + o)]))
    return out


def python_expected(t, now):
    """third statement of the rule, on concrete values (python's own integer parsing)"""
    import re
    if t['status'] != 'deleted' or t['modified'] is None:
        return False
    m = t['modified']
    if not re.fullmatch(r'[+-]?[0-9]+', m):
        return False
    v = int(m)
    if not (-2 ** 63 <= v <= 2 ** 63 - 1):
        return False
    if not (extern.CHRONO_MIN_SECS <= v <= extern.CHRONO_MAX_SECS):
        return False
    return v < now - SIX_MONTHS


def replay_judge(scn, out, v):
    if isinstance(out, list):
        probs = []
        for o in out:
            for i, r in enumerate(o.get('replicas', [])):
                if '1' in r['tasks'] and (v.get('info') or {}).get('class') == 'resurrected':
                    probs.append({'replica': i, 'tasks': r['tasks']})
        return bool(probs), probs[:3]
    if 'panic' in out:
        return True, [{'panic': out['panic']}]
    probs = []
    purged = set(out.get('purged', []))
    for t in scn['tasks']:
        exp = python_expected(t, scn['now'])
        if exp != (t['uuid'] in purged):
            probs.append({'task': t, 'now': scn['now'], 'purged_on_real_code': t['uuid'] in purged, 'expected': exp})
    return bool(probs), probs[:3]


def validate_samples(sample, out):
    if sample['scenario'].get('kind') == 'model':
        if 'panic' in out or sorted(out.get('purged', [])) != sample['predicted']['purged']:
            return False, {'predicted': sample['predicted'], 'real': out}
        for t in sample['scenario']['tasks']:
            if python_expected(t, sample['scenario']['now']) != (t['uuid'] in out['purged']):
                return False, {'task': t, 'real': out}
    return True, None


def required_covers(tier):
    return ['a task was purged', 'a deleted task was kept', 'expired task synced with a concurrent edit']


def configs(tier):
    if tier == 'quick':
        return [dict(name='select-2', factory=lambda: SelectHarness(2, 's2'),
                     bounds='2 tasks, status in {pending, completed, deleted, recurring, unknown, absent}, modified absent or an arbitrary string of <=24 chars, now in 1970..2096'),
                dict(name='sync', factory=lambda: SyncHarness('sy'),
                     bounds='a deleted task with symbolic age on replica A, one concurrent edit on replica B, both sync orders')]
    return [dict(name='select-3', factory=lambda: SelectHarness(3, 's3'), bounds='3 tasks as in quick', time_limit_s=3000),
            dict(name='sync', factory=lambda: SyncHarness('sy'), bounds='as quick')]


ASSUMPTIONS = [
    'modification times: the canonical decimal rendering of a symbolic integer in +-10^30 (digit strings and integers are in bijection, so parse stays in integer arithmetic), or one of 11 concrete malformed/edge strings (plus sign, leading zeros, non-ASCII digits, out of i64 range...); other strings are outside the bound',
    'the clock is the wall clock of the run (the compiled crate reads the real clock in the replay); a +-1 h band around the 180-day cutoff is excluded',
    'chrono: DateTime::from_timestamp valid range [-8334601228800, 8210266876799] s (validated by the Kani harness for C18); Utc::now is a symbolic instant in 1970..2096',
    'HashMap iteration order = insertion order',
]
EXPLANATION = ('statuses forked, modified strings and the clock symbolic; obligation per task: purged <=> status deleted and modified '
               'parses as an in-range i64 older than now-180d (stated with an independent regular-expression encoding); the purge is '
               'exactly one Delete per purged task carrying the old content; after syncing with a concurrent edit in both orders the task is absent')


KANI = {
    'quick': [('k_chrono_range', 'SUCCESSFUL')],
    'thorough': [('k_chrono_range', 'SUCCESSFUL'), ('k_chrono_range_reach', 'FAILED')],
}
