"""HTTP world: the real `SyncServer` (src/server/sync/mod.rs: request construction, status / header / content-type
interpretation, sealing call sites) and `Cryptor` (ideal primitives) against a protocol-conformant sync server written
from docs/src/http.md, with switches that make it answer in non-conformant ways (re-labelled bodies) for C13."""
from mirsym.explore import PathAbort, Panic
from mirsym.parser import Unsupported
from mirsym.values import Adt, PyVec, PySlice, SegStr, Bytes, Some, NONE, Ok, Err, clone_val, deref, mkref, is_sym
from mirsym.models.core import val_eq, z_and, z_all, z_any, z_not
from mirsym.models import http
from .common import show

BASE = 'http://srv/base'
CT_SEGMENT = 'application/vnd.taskchampion.history-segment'
CT_SNAPSHOT = 'application/vnd.taskchampion.snapshot'
MIR_VARIANT = 'full'


def dashed(u):
    """the dashed-hex rendering of a uuid value"""
    if isinstance(u, int):
        h = '%032x' % u
        return f'{h[:8]}-{h[8:12]}-{h[12:16]}-{h[16:20]}-{h[20:]}'
    return SegStr([('uuidh', u)])


class HttpServer:
    """docs/src/http.md, written independently of the client: one client id, a version chain, one snapshot"""

    def __init__(self, world):
        self.w = world
        self.chain = []          # (parent, vid, body)
        self.snapshot = None     # (vid, body)
        self.requests = []       # every request as received (method, endpoint, uuid, headers, body)
        self.urgency = None      # None | 'urgency=low' | 'urgency=high' for the next accepted version
        self.tamper = None       # hook(kind, response) -> response, for non-conformant answers (C13)
        self.problems = []       # requests that do not follow the documented format

    def latest(self):
        return self.chain[-1][1] if self.chain else 0

    def _endpoint(self, I, url):
        if not isinstance(url, http.Url) or url.base != BASE + '/':
            self.problems.append(('base url', repr(url)))
            return None, None
        rel = url.rel
        if isinstance(rel, str):
            if rel == 'v1/client/snapshot':
                return 'snapshot', None
            import re
            m = re.fullmatch(r'v1/client/(add-version|get-child-version|add-snapshot)/([0-9a-f]{8}-[0-9a-f]{4}-[0-9a-f]{4}-[0-9a-f]{4}-[0-9a-f]{12})', rel)
            if m:
                return m.group(1), int(m.group(2).replace('-', ''), 16)
        elif isinstance(rel, SegStr) and len(rel.segs) == 2 and isinstance(rel.segs[0], str) and rel.segs[1][0] == 'uuidh':
            for ep in ('add-version', 'get-child-version', 'add-snapshot'):
                if rel.segs[0] == f'v1/client/{ep}/':
                    return ep, rel.segs[1][1]
        self.problems.append(('endpoint', repr(rel)))
        return None, None

    def _header(self, req, name):
        for k, v in req.headers:
            if isinstance(k, str) and k.lower() == name.lower():
                return v
        return None

    def handle(self, I, req):
        ep, u = self._endpoint(I, req.url)
        self.requests.append((req.method, ep, u, list(req.headers), req.body))
        cid = self._header(req, 'X-Client-Id')
        if cid is None or not I.ctx.branch(val_eq(cid, dashed(self.w.client_id))):
            self.problems.append(('X-Client-Id', repr(cid)))
        if ep is None:
            return Ok(http.Response(404, [], None, req.url))
        resp = self._serve(I, req, ep, u)
        if self.tamper is not None:
            resp = self.tamper(ep, resp) or resp
        return Ok(resp)

    def _serve(self, I, req, ep, u):
        R = http.Response
        if ep == 'add-version':
            if req.method != 'POST' or self._header(req, 'Content-Type') != CT_SEGMENT:
                self.problems.append(('add-version request', req.method, self._header(req, 'Content-Type')))
                return R(400, [], None, req.url)
            if self.chain and not I.ctx.branch(val_eq(u, self.latest())):
                return R(409, [('x-parent-version-id', dashed(self.latest()))], None, req.url)
            vid = self.w.new_version_id()
            self.chain.append((u, vid, req.body))
            hs = [('x-version-id', dashed(vid))]
            if self.urgency:
                hs.append(('x-snapshot-request', self.urgency))
            return R(200, hs, None, req.url)
        if ep == 'get-child-version':
            if req.method != 'GET':
                self.problems.append(('get-child-version method', req.method))
                return R(400, [], None, req.url)
            for p, v, body in self.chain:
                if I.ctx.branch(val_eq(p, u)):
                    return R(200, [('content-type', CT_SEGMENT), ('x-version-id', dashed(v)), ('x-parent-version-id', dashed(p))], body, req.url)
            return R(404, [], None, req.url)
        if ep == 'add-snapshot':
            if req.method != 'POST' or self._header(req, 'Content-Type') != CT_SNAPSHOT:
                self.problems.append(('add-snapshot request', req.method, self._header(req, 'Content-Type')))
                return R(400, [], None, req.url)
            self.snapshot = (u, req.body)
            return R(200, [], None, req.url)
        if ep == 'snapshot':
            if req.method != 'GET':
                self.problems.append(('snapshot method', req.method))
                return R(400, [], None, req.url)
            if self.snapshot is None:
                return R(404, [], None, req.url)
            return R(200, [('content-type', CT_SNAPSHOT), ('x-version-id', dashed(self.snapshot[0]))], self.snapshot[1], req.url)
        return R(404, [], None, req.url)


class HttpWorld:
    def __init__(self, I, ctx, client_id=0xC11E57, secret=(115, 101, 99)):
        self.I, self.ctx = I, ctx
        self.client_id, self.secret = client_id, list(secret)
        self.nver = 0
        self.server = HttpServer(self)
        I.env['http_server'] = self.server.handle
        I.env.setdefault('crypto_log', {'kdf': [], 'seal': [], 'open': [], 'rand': []})

    def new_version_id(self):
        self.nver += 1
        return 7000 + self.nver

    def new_client(self):
        r = self.I.call('SyncServer::new', [BASE, self.client_id, PyVec(list(self.secret))])
        if r.variant != 0:
            raise Panic('SyncServer::new failed: ' + repr(r)[:200])
        return r.fields[0]

    def f_add_version(self, srv, parent, payload):
        return self.I.call('<SyncServer as Server>::add_version', [mkref(srv), parent, payload])

    def f_get_child_version(self, srv, parent):
        return self.I.call('<SyncServer as Server>::get_child_version', [mkref(srv), parent])

    def f_add_snapshot(self, srv, vid, payload):
        return self.I.call('<SyncServer as Server>::add_snapshot', [mkref(srv), vid, payload])

    def f_get_snapshot(self, srv):
        return self.I.call('<SyncServer as Server>::get_snapshot', [mkref(srv)])

    def run(self, fut):
        return self.I.block_on(fut)
