"""C08 — every server backend implements the version-chain protocol exactly: object-store backend and local on-disk backend.

Real code: CloudServer::{new, add_version, get_child_version, add_snapshot, get_snapshot, get_latest,
get_child_versions, snapshot_info, maybe_cleanup, cleanup, version_name/parse_version_name, snapshot names},
Cryptor seal/unseal, Envelope; over a model object store and ideal ring primitives."""
import z3

from mirsym.explore import PathAbort, Panic
from mirsym.values import Adt, clone_val, PyVec, Some, NONE
from mirsym.models.core import val_eq, z_and, z_all, z_any, z_not
from .common import get_interp, show
from . import cloudworld as _cw
from .cloudworld import CloudWorld
from .localsrv import LocalSrvWorld, predicted_results, compare_calls, hex32

PROPERTY = 'C08'
REPLAY_RETRIES = 2
LEVEL = 'other'


class Harness:
    def __init__(self, ncalls, nclients, name, page_size=100):
        self.I = get_interp()
        self.ncalls, self.nclients, self.name, self.page_size = ncalls, nclients, name, page_size

    def run_path(self, ctx):
        c, I = ctx, self.I
        w = CloudWorld(I, ctx, self.page_size, concrete_ids=False, concrete_now=2_000_000_000)
        # random draws: the one-byte draws decide 'run cleanup now?' (first draw of an add_version) and the snapshot
        # urgency (second draw); cleanup yes/no is forked, the urgency draw is irrelevant here and fixed
        draws = {'n': 0}

        def rand_byte(I2, n, i):
            if n != 1:
                return None
            draws['n'] += 1
            if draws['n'] % 2 == 1:
                return None          # 'run cleanup now?' stays a symbolic byte decided by z3
            return 200
        servers = [w.new_server(k)[0] for k in range(self.nclients)]
        chain = []          # reference: [(parent, id, payload)]
        snaps = []          # reference: [(version, payload)]
        unknown = w.new_uuid()
        log = []

        def wit(m):
            scn, pred = w.record(m)
            return {'calls': show(log, m), 'cloud': {'scenario': scn, 'predicted': pred}}
        for step in range(self.ncalls):
            srv = servers[c.choose(self.nclients, 'client') if step else 0]
            kind = ['add_version', 'get_child_version', 'add_snapshot', 'get_snapshot'][c.choose(4, 'call')]
            latest = chain[-1][1] if chain else 0
            if kind == 'add_version':
                # the parent is an arbitrary uuid: whether it is the latest version is decided by z3 at the
                # comparison the real code makes
                pname, parent = 'any', c.fresh_int('parent', 0, 2 ** 128 - 1)
                w.known_uuid(parent)       # ids minted later are fresh: distinct from every uuid seen so far
                payload = w.payload(step % 3)
                draws['n'] = 0
                I.env['rand_byte'] = rand_byte
                r = w.run(w.f_add_version(srv, parent, clone_val(payload)))
                I.env['rand_byte'] = None
                log.append(('add_version', pname, parent, payload))
                if r.variant != 0:
                    c.prove(False, 'add_version returned Err', wit, {'class': 'err', 'err': repr(r)[:120]})
                    return None
                res = r.fields[0].fields[0]
                accept = (not chain) or c.branch(val_eq(parent, latest))
                if accept:
                    if res.variant != 0:
                        c.prove(False, 'a version on top of the latest version was rejected', wit, {'class': 'reject-valid', 'parent': pname})
                        return None
                    vid = res.fields[0]
                    chain.append((parent, vid, payload))
                    c.cover('version accepted')
                else:
                    ok = res.variant == 1 and val_eq(res.fields[0], latest)
                    if res.variant != 1 or not c.prove(ok, 'rejection does not name the latest version', wit, {'class': 'reject-wrong-latest', 'parent': pname}):
                        if res.variant != 1:
                            c.prove(False, 'a version whose parent is not the latest was accepted', wit, {'class': 'accept-invalid', 'parent': pname})
                        return None
                    c.cover('version rejected naming latest')
                    # nothing changed: the chain read back below must still be the reference chain
            elif kind == 'get_child_version':
                pname, parent = 'any', c.fresh_int('parent', 0, 2 ** 128 - 1)
                w.known_uuid(parent)       # ids minted later are fresh: distinct from every uuid seen so far
                r = w.run(w.f_get_child_version(srv, parent))
                log.append(('get_child_version', pname, parent))
                if r.variant != 0:
                    c.prove(False, 'get_child_version returned Err', wit, {'class': 'err', 'err': repr(r)[:160]})
                    return None
                g = r.fields[0]
                exp = None
                for p, v, pl in chain:
                    if c.branch(val_eq(p, parent)):
                        exp = (p, v, pl)
                        break
                if exp is None:
                    if g.variant != 0:
                        c.prove(False, 'a child was returned for a parent that has none', wit, {'class': 'phantom-child', 'parent': pname})
                        return None
                    c.cover('no such version')
                else:
                    if g.variant != 1:
                        c.prove(False, 'an accepted version is not returned as the child of its parent', wit, {'class': 'missing-child', 'parent': pname})
                        return None
                    ok = z_all([val_eq(g.fields[0], exp[1]), val_eq(g.fields[1], exp[0]), val_eq(g.fields[2], exp[2])])
                    if not c.prove(ok, 'child version differs from what was accepted (id / parent / bytes)', wit, {'class': 'child-differs', 'parent': pname}):
                        return None
                    c.cover('child returned byte for byte')
            elif kind == 'add_snapshot':
                if not chain:
                    raise PathAbort()
                i = c.choose(len(chain), 'snapshot-version')
                payload = w.payload((step + 1) % 3)
                r = w.run(w.f_add_snapshot(srv, chain[i][1], clone_val(payload)))
                log.append(('add_snapshot', i, payload))
                if r.variant != 0:
                    c.prove(False, 'add_snapshot returned Err', wit, {'class': 'err'})
                    return None
                snaps = [s for s in snaps if s[0] is not chain[i][1]] + [(chain[i][1], payload)]
            else:
                r = w.run(w.f_get_snapshot(srv))
                log.append(('get_snapshot',))
                if r.variant != 0:
                    c.prove(False, 'get_snapshot returned Err', wit, {'class': 'err', 'err': repr(r)[:160]})
                    return None
                o = r.fields[0]
                if not snaps:
                    if o.variant != 0:
                        c.prove(False, 'a snapshot was returned although none was stored', wit, {'class': 'phantom-snapshot'})
                        return None
                else:
                    if o.variant != 1:
                        c.prove(False, 'a stored snapshot was not returned', wit, {'class': 'missing-snapshot'})
                        return None
                    ver, pl = o.fields[0].fields
                    ok = z_any(z_and(val_eq(ver, sv), val_eq(pl, sp)) for sv, sp in snaps)
                    if not c.prove(ok, 'snapshot not returned intact with the version it was stored for', wit, {'class': 'snapshot-differs'}):
                        return None
                    c.cover('snapshot returned intact')
        # read the whole chain back through a fresh client handle
        srv = w.new_server(9)[0]
        parent = chain[0][0] if chain else 0
        for p, v, pl in chain:
            r = w.run(w.f_get_child_version(srv, parent))
            g = r.fields[0] if r.variant == 0 else None
            if g is None or g.variant != 1:
                c.prove(False, 'chain cannot be walked from the first version', wit, {'class': 'walk'})
                return None
            ok = z_all([val_eq(g.fields[0], v), val_eq(g.fields[2], pl)])
            if not c.prove(ok, 'chain read back differs from the accepted versions', wit, {'class': 'walk-differs'}):
                return None
            parent = v
        r = w.run(w.f_get_child_version(srv, parent))
        if r.variant != 0 or r.fields[0].variant != 0:
            c.prove(False, 'the latest version has a child', wit, {'class': 'walk-extra'})
            return None
        out = {'calls': [l[0] for l in log], 'chain': len(chain)}
        if c.want_sample:
            m = c.get_model()
            if m is not None:
                out['scenario'], out['predicted'] = w.record(m)
            out['_encoded'] = sorted(I.encoded)
            out['_modelled'] = sorted(I.modelled)
        return out



class LocalHarness:
    """the local on-disk server: real LocalServer::{new, add_version, get_child_version, get_snapshot, get_latest_version_id,
    set_latest_version_id, get_version_by_parent_version_id, add_version_by_parent_version_id}, StoredUuid's ToSql/FromSql,
    over the rusqlite model; several handles on one directory used one after the other"""

    def __init__(self, ncalls, nclients, name):
        self.I = get_interp(variant='full')
        self.ncalls, self.nclients, self.name = ncalls, nclients, name

    def run_path(self, ctx):
        from .common import World
        c, I = ctx, self.I
        base = World(I, ctx)
        w = LocalSrvWorld(I, ctx)

        def fresh_parent():
            # an arbitrary uuid; ids minted from now on are fresh, i.e. differ from it (uuid4 contract; stated assumption)
            p = c.fresh_int('parent', 0, 2 ** 128 - 1)
            for k in range(base.nuuid + 1, base.nuuid + self.ncalls + 3):
                c.assume(p != 5000 + k)
            return p
        servers = [w.new_server() for _ in range(self.nclients)]
        chain = []
        calls, results = [], []
        minted = {}          # concrete minted id -> index of the call that returned it

        def scenario(m):
            def parent_ref(p):
                v = show(p, m)
                return {'ref': minted[v]} if v in minted else {'lit': str(v)}
            cs = []
            for kind, h, parent, payload in calls:
                d = {'h': h, 'call': kind}
                if parent is not None:
                    d['parent'] = parent_ref(parent)
                if payload is not None:
                    d['payload'] = [show(b, m) for b in payload.items]
                cs.append(d)
            return {'kind': 'srvcalls', 'backend': 'local', 'handles': self.nclients, 'calls': cs,
                    'walk_from': parent_ref(chain[0][0]) if chain else {'lit': '0'}}

        def wit(m):
            return {'backend': 'local', 'scenario': scenario(m), 'predicted': {'results': predicted_results(results, m), 'walk': None}}
        for step in range(self.ncalls):
            h = c.choose(self.nclients, 'client') if step else 0
            srv = servers[h]
            kind = ['add_version', 'get_child_version', 'get_snapshot'][c.choose(3, 'call')]
            latest = chain[-1][1] if chain else 0
            if kind == 'add_version':
                parent = fresh_parent()
                payload = PyVec([c.fresh_int('b', 0, 255) for _ in range(step % 3)])
                r = w.run(w.f_add_version(srv, parent, clone_val(payload)))
                calls.append((kind, h, parent, payload))
                results.append((kind, r))
                if r.variant != 0:
                    c.prove(False, 'add_version returned Err', wit, {'class': 'err', 'backend': 'local', 'err': repr(r)[:120]})
                    return None
                res = r.fields[0].fields[0]
                accept = (not chain) or c.branch(val_eq(parent, latest))
                if accept:
                    if res.variant != 0:
                        c.prove(False, 'a version on top of the latest version was rejected', wit, {'class': 'reject-valid', 'backend': 'local'})
                        return None
                    vid = res.fields[0]
                    minted[vid] = len(calls) - 1
                    chain.append((parent, vid, payload))
                    c.cover('local: version accepted')
                else:
                    ok = res.variant == 1 and val_eq(res.fields[0], latest)
                    if res.variant != 1 or not c.prove(ok, 'rejection does not name the latest version', wit, {'class': 'reject-wrong-latest', 'backend': 'local'}):
                        if res.variant != 1:
                            c.prove(False, 'a version whose parent is not the latest was accepted', wit, {'class': 'accept-invalid', 'backend': 'local'})
                        return None
                    c.cover('local: version rejected naming latest')
            elif kind == 'get_child_version':
                parent = fresh_parent()
                r = w.run(w.f_get_child_version(srv, parent))
                calls.append((kind, h, parent, None))
                results.append((kind, r))
                if r.variant != 0:
                    c.prove(False, 'get_child_version returned Err', wit, {'class': 'err', 'backend': 'local', 'err': repr(r)[:160]})
                    return None
                g = r.fields[0]
                exp = None
                for p, v, pl in chain:
                    if c.branch(val_eq(p, parent)):
                        exp = (p, v, pl)
                        break
                if exp is None:
                    if g.variant != 0:
                        c.prove(False, 'a child was returned for a parent that has none', wit, {'class': 'phantom-child', 'backend': 'local'})
                        return None
                    c.cover('local: no such version')
                else:
                    if g.variant != 1:
                        c.prove(False, 'an accepted version is not returned as the child of its parent', wit, {'class': 'missing-child', 'backend': 'local'})
                        return None
                    ok = z_all([val_eq(g.fields[0], exp[1]), val_eq(g.fields[1], exp[0]), val_eq(g.fields[2], exp[2])])
                    if not c.prove(ok, 'child version differs from what was accepted (id / parent / bytes)', wit, {'class': 'child-differs', 'backend': 'local'}):
                        return None
                    c.cover('local: child returned byte for byte')
            else:
                r = w.run(w.f_get_snapshot(srv))
                calls.append((kind, h, None, None))
                results.append((kind, r))
                if r.variant != 0 or r.fields[0].variant != 0:
                    c.prove(False, 'get_snapshot of the local server did not return "no snapshot"', wit, {'class': 'phantom-snapshot', 'backend': 'local'})
                    return None
        # the whole chain read back through a fresh handle
        srv = w.new_server()
        parent = chain[0][0] if chain else 0
        walk = []
        for p, v, pl in chain:
            r = w.run(w.f_get_child_version(srv, parent))
            g = r.fields[0] if r.variant == 0 else None
            if g is None or g.variant != 1:
                c.prove(False, 'chain cannot be walked from the first version', wit, {'class': 'walk', 'backend': 'local'})
                return None
            ok = z_all([val_eq(g.fields[0], v), val_eq(g.fields[2], pl)])
            if not c.prove(ok, 'chain read back differs from the accepted versions', wit, {'class': 'walk-differs', 'backend': 'local'}):
                return None
            walk.append(g)
            parent = v
        r = w.run(w.f_get_child_version(srv, parent))
        if r.variant != 0 or r.fields[0].variant != 0:
            c.prove(False, 'the latest version has a child', wit, {'class': 'walk-extra', 'backend': 'local'})
            return None
        out = {'backend': 'local', 'calls': [x[0] for x in calls], 'chain': len(chain)}
        if c.want_sample:
            m = c.get_model()
            if m is not None:
                out['scenario'] = scenario(m)
                out['predicted'] = {'results': predicted_results(results, m),
                                    'walk': [{'id': hex32(show(g.fields[0], m)), 'parent': hex32(show(g.fields[1], m)),
                                              'bytes': [show(b, m) for b in g.fields[2].items]} for g in walk]}
            out['_encoded'] = sorted(I.encoded)
            out['_modelled'] = sorted(I.modelled)
        return out



class HttpHarness:
    """the HTTP client backend: real SyncServer::{new, construct_endpoint_url, add_version, get_child_version, add_snapshot,
    get_snapshot}, get_uuid_header, get_snapshot_urgency, get_content_type, sealed_from_resp, the reqwest::Error conversion,
    Cryptor seal/unseal (ideal primitives), against a protocol-conformant sync server written from docs/src/http.md"""

    def __init__(self, ncalls, nclients, name):
        self.I = get_interp(variant='full')
        self.ncalls, self.nclients, self.name = ncalls, nclients, name

    def run_path(self, ctx):
        from .common import World
        from .httpworld import HttpWorld
        c, I = ctx, self.I
        World(I, ctx)
        w = HttpWorld(I, ctx)
        servers = [w.new_client() for _ in range(self.nclients)]
        srvm = w.server
        chain, snaps, log = [], [], []
        calls, results, minted = [], [], {}

        def fresh_parent():
            p = c.fresh_int('parent', 0, 2 ** 128 - 1)
            for k in range(w.nver + 1, w.nver + self.ncalls + 3):
                c.assume(p != 7000 + k)
            return p

        def scenario(m):
            def ref(p):
                v = show(p, m)
                return {'ref': minted[v]} if v in minted else {'lit': str(v)}
            cs = []
            for d in calls:
                e = {'h': d['h'], 'call': d['call']}
                if 'parent' in d:
                    e['parent'] = ref(d['parent'])
                if 'version' in d:
                    e['version'] = ref(d['version'])
                if 'payload' in d:
                    e['payload'] = [show(b, m) for b in d['payload'].items]
                if d.get('urgency'):
                    e['urgency'] = d['urgency']
                cs.append(e)
            return {'kind': 'srvcalls', 'backend': 'http', 'handles': self.nclients, 'client_id': str(w.client_id), 'secret': list(w.secret),
                    'calls': cs, 'walk_from': ref(chain[0][0]) if chain else {'lit': '0'}}

        def wit(m):
            return {'backend': 'http', 'calls': show(log, m), 'requests': [(q[0], q[1], show(q[2], m)) for q in srvm.requests],
                    'scenario': scenario(m), 'predicted': {'results': predicted_results(results, m, True), 'walk': None}}

        def conformant():
            if srvm.problems:
                c.prove(False, 'a request does not follow docs/src/http.md (method, endpoint, content type or X-Client-Id)', wit,
                        {'class': 'request-format', 'backend': 'http', 'problem': repr(srvm.problems[0])[:160]})
                return False
            return True
        for step in range(self.ncalls):
            h = c.choose(self.nclients, 'client') if step else 0
            srv = servers[h]
            kind = ['add_version', 'get_child_version', 'add_snapshot', 'get_snapshot'][c.choose(4, 'call')]
            latest = chain[-1][1] if chain else 0
            if kind == 'add_version':
                parent = fresh_parent()
                payload = PyVec([c.fresh_int('b', 0, 255) for _ in range(step % 3)])
                urg = c.choose(3, 'urgency')
                srvm.urgency = [None, 'urgency=low', 'urgency=high'][urg]
                r = w.run(w.f_add_version(srv, parent, clone_val(payload)))
                calls.append({'h': h, 'call': kind, 'parent': parent, 'payload': payload, 'urgency': srvm.urgency})
                results.append((kind, r))
                if r.variant == 0 and r.fields[0].fields[0].variant == 0 and isinstance(r.fields[0].fields[0].fields[0], int):
                    minted[r.fields[0].fields[0].fields[0]] = len(calls) - 1
                srvm.urgency = None
                log.append(('add_version', parent, payload))
                if not conformant():
                    return None
                if r.variant != 0:
                    c.prove(False, 'add_version returned Err', wit, {'class': 'err', 'backend': 'http', 'err': repr(r)[:120]})
                    return None
                res, gotu = r.fields[0].fields
                accept = (not chain) or c.branch(val_eq(parent, latest))
                if accept:
                    if res.variant != 0 or not c.prove(val_eq(res.fields[0], srvm.latest()), 'the accepted version id is not the one the server named', wit, {'class': 'accepted-id', 'backend': 'http'}):
                        if res.variant != 0:
                            c.prove(False, 'a version on top of the latest version was rejected', wit, {'class': 'reject-valid', 'backend': 'http'})
                        return None
                    if gotu.variant != urg:
                        c.prove(False, 'the snapshot request of the server was not passed on', wit, {'class': 'urgency', 'backend': 'http', 'sent': urg, 'got': gotu.variant})
                        return None
                    chain.append((parent, res.fields[0], payload))
                    c.cover('http: version accepted')
                    if urg:
                        c.cover('http: snapshot urgency passed on')
                else:
                    ok = res.variant == 1 and val_eq(res.fields[0], latest)
                    if res.variant != 1 or not c.prove(ok, 'rejection does not name the latest version', wit, {'class': 'reject-wrong-latest', 'backend': 'http'}):
                        if res.variant != 1:
                            c.prove(False, 'a version whose parent is not the latest was accepted', wit, {'class': 'accept-invalid', 'backend': 'http'})
                        return None
                    c.cover('http: version rejected naming latest')
            elif kind == 'get_child_version':
                parent = fresh_parent()
                r = w.run(w.f_get_child_version(srv, parent))
                calls.append({'h': h, 'call': kind, 'parent': parent})
                results.append((kind, r))
                log.append(('get_child_version', parent))
                if not conformant():
                    return None
                if r.variant != 0:
                    c.prove(False, 'get_child_version returned Err', wit, {'class': 'err', 'backend': 'http', 'err': repr(r)[:160]})
                    return None
                g = r.fields[0]
                exp = None
                for p, v, pl in chain:
                    if c.branch(val_eq(p, parent)):
                        exp = (p, v, pl)
                        break
                if exp is None:
                    if g.variant != 0:
                        c.prove(False, 'a child was returned for a parent that has none', wit, {'class': 'phantom-child', 'backend': 'http'})
                        return None
                    c.cover('http: no such version')
                else:
                    if g.variant != 1:
                        c.prove(False, 'an accepted version is not returned as the child of its parent', wit, {'class': 'missing-child', 'backend': 'http'})
                        return None
                    ok = z_all([val_eq(g.fields[0], exp[1]), val_eq(g.fields[1], exp[0]), val_eq(g.fields[2], exp[2])])
                    if not c.prove(ok, 'child version differs from what was accepted (id / parent / bytes)', wit, {'class': 'child-differs', 'backend': 'http'}):
                        return None
                    c.cover('http: child returned byte for byte')
            elif kind == 'add_snapshot':
                if not chain:
                    raise PathAbort()
                i = c.choose(len(chain), 'snapshot-version')
                payload = PyVec([c.fresh_int('s', 0, 255) for _ in range((step + 1) % 3)])
                r = w.run(w.f_add_snapshot(srv, chain[i][1], clone_val(payload)))
                calls.append({'h': h, 'call': kind, 'version': chain[i][1], 'payload': payload})
                results.append((kind, r))
                log.append(('add_snapshot', i, payload))
                if not conformant():
                    return None
                if r.variant != 0:
                    c.prove(False, 'add_snapshot returned Err', wit, {'class': 'err', 'backend': 'http'})
                    return None
                snaps = [(chain[i][1], payload)]
            else:
                r = w.run(w.f_get_snapshot(srv))
                calls.append({'h': h, 'call': kind})
                results.append((kind, r))
                log.append(('get_snapshot',))
                if not conformant():
                    return None
                if r.variant != 0:
                    c.prove(False, 'get_snapshot returned Err', wit, {'class': 'err', 'backend': 'http', 'err': repr(r)[:160]})
                    return None
                o = r.fields[0]
                if not snaps:
                    if o.variant != 0:
                        c.prove(False, 'a snapshot was returned although none was stored', wit, {'class': 'phantom-snapshot', 'backend': 'http'})
                        return None
                    c.cover('http: no snapshot')
                else:
                    if o.variant != 1:
                        c.prove(False, 'a stored snapshot was not returned', wit, {'class': 'missing-snapshot', 'backend': 'http'})
                        return None
                    ver, pl = o.fields[0].fields
                    ok = z_and(val_eq(ver, snaps[0][0]), val_eq(pl, snaps[0][1]))
                    if not c.prove(ok, 'snapshot not returned intact with the version it was stored for', wit, {'class': 'snapshot-differs', 'backend': 'http'}):
                        return None
                    c.cover('http: snapshot returned intact')
        # the whole chain read back through a fresh client
        srv = w.new_client()
        parent = chain[0][0] if chain else 0
        walk = []
        for p, v, pl in chain:
            r = w.run(w.f_get_child_version(srv, parent))
            g = r.fields[0] if r.variant == 0 else None
            if g is None or g.variant != 1:
                c.prove(False, 'chain cannot be walked from the first version', wit, {'class': 'walk', 'backend': 'http'})
                return None
            ok = z_all([val_eq(g.fields[0], v), val_eq(g.fields[2], pl)])
            if not c.prove(ok, 'chain read back differs from the accepted versions', wit, {'class': 'walk-differs', 'backend': 'http'}):
                return None
            walk.append(g)
            parent = v
        out = {'backend': 'http', 'calls': [x[0] for x in log], 'chain': len(chain)}
        if c.want_sample:
            m = c.get_model()
            if m is not None:
                out['scenario'] = scenario(m)
                out['predicted'] = {'results': predicted_results(results, m, True),
                                    'walk': [{'id': hex32(show(g.fields[0], m)), 'parent': hex32(show(g.fields[1], m)),
                                              'bytes': [show(b, m) for b in g.fields[2].items]} for g in walk]}
            out['_encoded'] = sorted(I.encoded)
            out['_modelled'] = sorted(I.modelled)
        return out

def replay_scenario(v):
    if v['witness'].get('backend') == 'http':
        return v['witness']['scenario']
    if v['witness'].get('backend') == 'local':
        return v['witness']['scenario']
    return _cw.replay_scenario(v)


def replay_judge(scn, out, v):
    if v['witness'].get('backend') == 'http':
        # confirmed when the compiled SyncServer (real reqwest, real sealing) talking to the in-process sync server of the replay
        # binary returns what the interpreter predicted for the calls made so far, or when that server saw a malformed request
        pred = v['witness']['predicted']
        n = len(pred['results'])
        if not isinstance(out, dict) or 'results' not in out:
            return False, {'replay_output': str(out)[:300]}
        if (v.get('info') or {}).get('class') == 'request-format':
            return bool(out.get('request_problems')), {'request_problems': out.get('request_problems')}
        eq, d = compare_calls({'results': pred['results'], 'walk': []}, {'results': out['results'][:n], 'walk': []})
        return eq, d
    if v['witness'].get('backend') == 'local':
        # confirmed when the compiled LocalServer over the real SQLite returns what the interpreter predicted for the
        # calls made so far (the oracle was evaluated on those values); the final walk is not part of a counterexample
        pred = v['witness']['predicted']
        n = len(pred['results'])
        if not isinstance(out, dict) or 'results' not in out:
            return False, {'replay_output': str(out)[:300]}
        eq, d = compare_calls({'results': pred['results'], 'walk': []}, {'results': out['results'][:n], 'walk': []})
        return eq, d
    return _cw.replay_judge(scn, out, v)


def validate_samples(s, out):
    if s.get('backend') == 'http':
        if isinstance(out, dict) and (out.get('request_problems') or out.get('plaintext_in_a_request_body')):
            return False, {'request_problems': out.get('request_problems'), 'plaintext': out.get('plaintext_in_a_request_body')}
        return compare_calls(s['predicted'], out)
    if s.get('backend') == 'local':
        return compare_calls(s['predicted'], out)
    return _cw.validate_samples(s, out)

def required_covers(tier):
    return ['version accepted', 'version rejected naming latest', 'no such version', 'child returned byte for byte', 'snapshot returned intact',
            'local: version accepted', 'local: version rejected naming latest', 'local: no such version', 'local: child returned byte for byte',
            'http: version accepted', 'http: version rejected naming latest', 'http: no such version', 'http: child returned byte for byte',
            'http: snapshot returned intact', 'http: no snapshot', 'http: snapshot urgency passed on']


def configs(tier):
    if tier == 'quick':
        return [dict(name='calls3x2', factory=lambda: Harness(3, 2, 'q'),
                     bounds='every sequence of 3 calls (add_version / get_child_version / add_snapshot / get_snapshot) from 2 client handles used one after the other; parents: an arbitrary symbolic uuid (latest / older / unknown decided by z3); payloads of 0-2 symbolic bytes (length fixed per position); version ids symbolic and distinct; "cleanup now?" a symbolic random byte; then the chain is walked through a fresh handle'),
                dict(name='http-calls3x2', factory=lambda: HttpHarness(3, 2, 'hq'), mir='full',
                     bounds='HTTP client: every sequence of 3 calls (add_version / get_child_version / add_snapshot / get_snapshot) from 2 SyncServer values with one client id against a conformant sync server (docs/src/http.md); parents arbitrary symbolic uuids; payloads 0-2 symbolic bytes (empty included); snapshot request none/low/high per accepted version; then the chain is walked through a fresh client'),
                dict(name='local-calls3x2', factory=lambda: LocalHarness(3, 2, 'lq'), mir='full',
                     bounds='local on-disk server: every sequence of 3 calls (add_version / get_child_version / get_snapshot) from 2 handles on one directory used one after the other; parents arbitrary symbolic uuids; payloads 0-2 symbolic bytes; then the chain is walked through a fresh handle')]
    return [dict(name='calls4x2', factory=lambda: Harness(4, 2, 't'), bounds='as quick with 4 calls', time_limit_s=3300),
            dict(name='calls3x2-page1', factory=lambda: Harness(3, 2, 'p1', page_size=1), bounds='3 calls, list page size 1', time_limit_s=3300),
            dict(name='http-calls4x2', factory=lambda: HttpHarness(4, 2, 'ht'), mir='full', bounds='HTTP client, 4 calls from 2 clients', time_limit_s=3300),
            dict(name='local-calls5x2', factory=lambda: LocalHarness(5, 2, 'lt'), mir='full', bounds='local on-disk server, 5 calls from 2 handles', time_limit_s=3300)]


ASSUMPTIONS = [
    'claimed for the object-store backend, the local on-disk backend and the HTTP client; the git backend (sub-processes) is outside',
    'HTTP client: the crate-side request construction and response interpretation are executed; reqwest/url are modelled at their call boundary (a request is a record of method, url, headers, body; a response is status, headers, body; header names case-insensitive; 4xx/5xx become errors in error_for_status); the server is a conformant implementation of docs/src/http.md written in the harness; transfer encodings, TLS, redirects and transport failures are outside; the replay runs the same calls through ServerConfig::Remote (real reqwest, real sealing) against an in-process sync server written from docs/src/http.md in the replay binary (httptest) and compares every result',
    'local backend: the Rust code of LocalServer and StoredUuid is executed; the SQL engine behind rusqlite is a model (tables in insertion order, PRIMARY KEY uniqueness, transactions as private copies committed atomically; only the statement forms the crate uses are understood, anything else is inconclusive); the replay runs the same calls on the compiled LocalServer over the real SQLite (ServerConfig::Local) and compares every result',
    'local backend: add_snapshot is never called (the local server never asks for a snapshot; its add_snapshot is unreachable!() by design), get_snapshot must answer "none"; handles are used one after the other (no concurrent transactions: SQLite locking is outside)',
    'object store = model of the Service trait contract (get/put/del/list by prefix/compare-and-swap); ring primitives idealised (see C13); Uuid::new_v4 returns fresh distinct values with symbolic order',
    'payloads: 0-2 symbolic bytes (empty and non-UTF-8 included); large payloads outside; object creation times equal the current time (no version is old enough for age-based cleanup here, that is C10)',
    'replay: the solver model is run on the compiled CloudServer over the hook in-memory object store; a counterexample is confirmed when results, request log and store content equal the interpreter\'s prediction (ids compared up to renaming, since the real code mints them at random)',
]
EXPLANATION = ('call kinds, client handle and parent choice forked; payload bytes, version ids (and their order), the random cleanup/urgency '
               'draws are z3 terms; every result is compared with a reference chain model and the chain is finally walked from nil')
