"""C08 — every server backend implements the version-chain protocol exactly: object-store backend only.

Real code: CloudServer::{new, add_version, get_child_version, add_snapshot, get_snapshot, get_latest,
get_child_versions, snapshot_info, maybe_cleanup, cleanup, version_name/parse_version_name, snapshot names},
Cryptor seal/unseal, Envelope; over a model object store and ideal ring primitives."""
import z3

from mirsym.explore import PathAbort, Panic
from mirsym.values import Adt, clone_val, PyVec, Some, NONE
from mirsym.models.core import val_eq, z_and, z_all, z_any, z_not
from .common import get_interp, show
from .cloudworld import CloudWorld, replay_scenario, replay_judge, validate_samples  # noqa: F401

PROPERTY = 'C08'
REPLAY_RETRIES = 2
LEVEL = 'other'


class Harness:
    def __init__(self, ncalls, nclients, name, page_size=100):
        self.I = get_interp()
        self.ncalls, self.nclients, self.name, self.page_size = ncalls, nclients, name, page_size

    def run_path(self, ctx):
        c, I = ctx, self.I
        w = CloudWorld(I, ctx, self.page_size, concrete_ids=False, concrete_now=2_000_000_000)
        # random draws: the one-byte draws decide 'run cleanup now?' (first draw of an add_version) and the snapshot
        # urgency (second draw); cleanup yes/no is forked, the urgency draw is irrelevant here and fixed
        draws = {'n': 0}

        def rand_byte(I2, n, i):
            if n != 1:
                return None
            draws['n'] += 1
            if draws['n'] % 2 == 1:
                return None          # 'run cleanup now?' stays a symbolic byte decided by z3
            return 200
        servers = [w.new_server(k)[0] for k in range(self.nclients)]
        chain = []          # reference: [(parent, id, payload)]
        snaps = []          # reference: [(version, payload)]
        unknown = w.new_uuid()
        log = []

        def wit(m):
            scn, pred = w.record(m)
            return {'calls': show(log, m), 'cloud': {'scenario': scn, 'predicted': pred}}
        for step in range(self.ncalls):
            srv = servers[c.choose(self.nclients, 'client') if step else 0]
            kind = ['add_version', 'get_child_version', 'add_snapshot', 'get_snapshot'][c.choose(4, 'call')]
            latest = chain[-1][1] if chain else 0
            if kind == 'add_version':
                # the parent is an arbitrary uuid: whether it is the latest version is decided by z3 at the
                # comparison the real code makes
                pname, parent = 'any', c.fresh_int('parent', 0, 2 ** 128 - 1)
                w.known_uuid(parent)       # ids minted later are fresh: distinct from every uuid seen so far
                payload = w.payload(step % 3)
                draws['n'] = 0
                I.env['rand_byte'] = rand_byte
                r = w.run(w.f_add_version(srv, parent, clone_val(payload)))
                I.env['rand_byte'] = None
                log.append(('add_version', pname, parent, payload))
                if r.variant != 0:
                    c.prove(False, 'add_version returned Err', wit, {'class': 'err', 'err': repr(r)[:120]})
                    return None
                res = r.fields[0].fields[0]
                accept = (not chain) or c.branch(val_eq(parent, latest))
                if accept:
                    if res.variant != 0:
                        c.prove(False, 'a version on top of the latest version was rejected', wit, {'class': 'reject-valid', 'parent': pname})
                        return None
                    vid = res.fields[0]
                    chain.append((parent, vid, payload))
                    c.cover('version accepted')
                else:
                    ok = res.variant == 1 and val_eq(res.fields[0], latest)
                    if res.variant != 1 or not c.prove(ok, 'rejection does not name the latest version', wit, {'class': 'reject-wrong-latest', 'parent': pname}):
                        if res.variant != 1:
                            c.prove(False, 'a version whose parent is not the latest was accepted', wit, {'class': 'accept-invalid', 'parent': pname})
                        return None
                    c.cover('version rejected naming latest')
                    # nothing changed: the chain read back below must still be the reference chain
            elif kind == 'get_child_version':
                pname, parent = 'any', c.fresh_int('parent', 0, 2 ** 128 - 1)
                w.known_uuid(parent)       # ids minted later are fresh: distinct from every uuid seen so far
                r = w.run(w.f_get_child_version(srv, parent))
                log.append(('get_child_version', pname, parent))
                if r.variant != 0:
                    c.prove(False, 'get_child_version returned Err', wit, {'class': 'err', 'err': repr(r)[:160]})
                    return None
                g = r.fields[0]
                exp = None
                for p, v, pl in chain:
                    if c.branch(val_eq(p, parent)):
                        exp = (p, v, pl)
                        break
                if exp is None:
                    if g.variant != 0:
                        c.prove(False, 'a child was returned for a parent that has none', wit, {'class': 'phantom-child', 'parent': pname})
                        return None
                    c.cover('no such version')
                else:
                    if g.variant != 1:
                        c.prove(False, 'an accepted version is not returned as the child of its parent', wit, {'class': 'missing-child', 'parent': pname})
                        return None
                    ok = z_all([val_eq(g.fields[0], exp[1]), val_eq(g.fields[1], exp[0]), val_eq(g.fields[2], exp[2])])
                    if not c.prove(ok, 'child version differs from what was accepted (id / parent / bytes)', wit, {'class': 'child-differs', 'parent': pname}):
                        return None
                    c.cover('child returned byte for byte')
            elif kind == 'add_snapshot':
                if not chain:
                    raise PathAbort()
                i = c.choose(len(chain), 'snapshot-version')
                payload = w.payload((step + 1) % 3)
                r = w.run(w.f_add_snapshot(srv, chain[i][1], clone_val(payload)))
                log.append(('add_snapshot', i, payload))
                if r.variant != 0:
                    c.prove(False, 'add_snapshot returned Err', wit, {'class': 'err'})
                    return None
                snaps = [s for s in snaps if s[0] is not chain[i][1]] + [(chain[i][1], payload)]
            else:
                r = w.run(w.f_get_snapshot(srv))
                log.append(('get_snapshot',))
                if r.variant != 0:
                    c.prove(False, 'get_snapshot returned Err', wit, {'class': 'err', 'err': repr(r)[:160]})
                    return None
                o = r.fields[0]
                if not snaps:
                    if o.variant != 0:
                        c.prove(False, 'a snapshot was returned although none was stored', wit, {'class': 'phantom-snapshot'})
                        return None
                else:
                    if o.variant != 1:
                        c.prove(False, 'a stored snapshot was not returned', wit, {'class': 'missing-snapshot'})
                        return None
                    ver, pl = o.fields[0].fields
                    ok = z_any(z_and(val_eq(ver, sv), val_eq(pl, sp)) for sv, sp in snaps)
                    if not c.prove(ok, 'snapshot not returned intact with the version it was stored for', wit, {'class': 'snapshot-differs'}):
                        return None
                    c.cover('snapshot returned intact')
        # read the whole chain back through a fresh client handle
        srv = w.new_server(9)[0]
        parent = chain[0][0] if chain else 0
        for p, v, pl in chain:
            r = w.run(w.f_get_child_version(srv, parent))
            g = r.fields[0] if r.variant == 0 else None
            if g is None or g.variant != 1:
                c.prove(False, 'chain cannot be walked from the first version', wit, {'class': 'walk'})
                return None
            ok = z_all([val_eq(g.fields[0], v), val_eq(g.fields[2], pl)])
            if not c.prove(ok, 'chain read back differs from the accepted versions', wit, {'class': 'walk-differs'}):
                return None
            parent = v
        r = w.run(w.f_get_child_version(srv, parent))
        if r.variant != 0 or r.fields[0].variant != 0:
            c.prove(False, 'the latest version has a child', wit, {'class': 'walk-extra'})
            return None
        out = {'calls': [l[0] for l in log], 'chain': len(chain)}
        if c.want_sample:
            m = c.get_model()
            if m is not None:
                out['scenario'], out['predicted'] = w.record(m)
            out['_encoded'] = sorted(I.encoded)
            out['_modelled'] = sorted(I.modelled)
        return out


def required_covers(tier):
    return ['version accepted', 'version rejected naming latest', 'no such version', 'child returned byte for byte', 'snapshot returned intact']


def configs(tier):
    if tier == 'quick':
        return [dict(name='calls3x2', factory=lambda: Harness(3, 2, 'q'),
                     bounds='every sequence of 3 calls (add_version / get_child_version / add_snapshot / get_snapshot) from 2 client handles used one after the other; parents: an arbitrary symbolic uuid (latest / older / unknown decided by z3); payloads of 0-2 symbolic bytes (length fixed per position); version ids symbolic and distinct; "cleanup now?" a symbolic random byte; then the chain is walked through a fresh handle')]
    return [dict(name='calls4x2', factory=lambda: Harness(4, 2, 't'), bounds='as quick with 4 calls', time_limit_s=3300),
            dict(name='calls3x2-page1', factory=lambda: Harness(3, 2, 'p1', page_size=1), bounds='3 calls, list page size 1', time_limit_s=3300)]


ASSUMPTIONS = [
    'claimed for the object-store backend only: local (SQLite FFI), git (sub-processes) and HTTP (reqwest, remote server) backends cannot be executed symbolically',
    'object store = model of the Service trait contract (get/put/del/list by prefix/compare-and-swap); ring primitives idealised (see C13); Uuid::new_v4 returns fresh distinct values with symbolic order',
    'payloads: 0-2 symbolic bytes (empty and non-UTF-8 included); large payloads outside; object creation times equal the current time (no version is old enough for age-based cleanup here, that is C10)',
    'replay: the solver model is run on the compiled CloudServer over the hook in-memory object store; a counterexample is confirmed when results, request log and store content equal the interpreter\'s prediction (ids compared up to renaming, since the real code mints them at random)',
]
EXPLANATION = ('call kinds, client handle and parent choice forked; payload bytes, version ids (and their order), the random cleanup/urgency '
               'draws are z3 terms; every result is compared with a reference chain model and the chain is finally walked from nil')
