"""C15 — the working set lists exactly the pending tasks, with stable numbering (in-memory storage).

Real code: Replica::rebuild_working_set (status closure) -> TaskDb::rebuild_working_set ->
working_set::rebuild, the add-on-commit path of Replica/TaskDb::commit_operations, the in-memory
working-set methods (get/add/set_item/clear + normalisation)."""
import z3

from mirsym.explore import PathAbort, Panic
from mirsym.values import Adt, clone_val, PyMap, PyVec, Some, NONE, mkref, TokStr
from mirsym.models.core import val_eq
from mirsym.models.strings import intern_tok
from .common import get_interp, show, dt
from .localworld import LocalWorld

PROPERTY = 'C15'
LEVEL = 'other'
KINDS = ['gap', 'task', 'missing']
IN_WS = ('pending', 'recurring')


def sym_status(c):
    """a task status as a symbolic string token: whether it is 'pending' / 'recurring' / anything else is decided
    by the solver at the comparisons the real code makes"""
    t = c.fresh_int('status')
    c.assume(z3.And(t >= -50, t <= 50))
    return TokStr(t)


def status_name(c, tok):
    """classify a status token (forks only if the code under test never compared it)"""
    if c.branch(tok.id == intern_tok('pending')):
        return 'pending'
    if c.branch(tok.id == intern_tok('recurring')):
        return 'recurring'
    return 'completed'       # stands for every other status string


class Harness:
    def __init__(self, nslots, nnew, nrebuilds, with_commit, name):
        self.I = get_interp()
        self.nslots, self.nnew, self.nrebuilds, self.with_commit, self.name = nslots, nnew, nrebuilds, with_commit, name

    def run_path(self, ctx):
        c, I = ctx, self.I
        w = LocalWorld(I, ctx, (), ())
        tasks = w.tasks()
        ws = w.working_set_of(w.db)
        n = c.choose(self.nslots + 1, 'slots')
        slots = []
        for i in range(n):
            kind = KINDS[c.choose(len(KINDS), 'slot-kind')]
            if i == n - 1 and kind == 'gap':
                raise PathAbort()          # stored working sets never end in an empty slot
            u = 100 + i
            slots.append(kind)
            if kind == 'gap':
                ws.items.append(NONE())
                continue
            ws.items.append(Some(u))
            if kind != 'missing':
                tasks.items.append([u, PyMap([['status', sym_status(c)]])])
        newc = []
        for j in range(c.choose(self.nnew + 1, 'newcomers')):
            u = 200 + j
            st = sym_status(c)
            newc.append((u, st))
            tasks.items.append([u, PyMap([['status', st]])])
        modes = []
        toks = {u: tm.items[0][1] for u, tm in tasks.items}
        spec = {'slots': slots, 'newcomers': newc}
        old = [x.fields[0] if x.variant else None for x in ws.items]
        for k in range(1 + c.choose(self.nrebuilds, 'rebuilds')):
            if k == 0 and newc:
                renumber = False           # newcomers enter through a sync, which rebuilds without renumbering
            else:
                renumber = bool(c.choose(2, 'renumber'))
            modes.append(renumber)
            r = I.block_on(I.call('Replica::rebuild_working_set', [mkref(w.rep), renumber]))
            if r.variant != 0:
                c.prove(False, 'rebuild_working_set returned Err', lambda m: dict(spec, modes=modes), {'class': 'rebuild-err', 'err': repr(r)[:120]})
                return None
            new = [x.fields[0] if x.variant else None for x in w.working_set()]
            status = {u: status_name(c, tm.items[0][1]) for u, tm in w.tasks().items}
            spec['slots'] = [k if k != 'task' else status[100 + i] for i, k in enumerate(slots)]
            spec['newcomers'] = [(u, status[u]) for u, _ in newc]
            bad = check_ws(old, new, status, renumber)
            if bad:
                c.prove(False, bad[0], lambda m: dict(spec, modes=list(modes)),
                        {'class': bad[1], 'renumber': renumber, 'old': old, 'new': new})
                return None
            if renumber and None in old[1:]:
                c.cover('renumbering over old gaps')
            if not renumber and any(u is not None and u not in status for u in old):
                c.cover('entry whose task vanished, no renumbering')
            old = new
        if self.with_commit:
            # a task that becomes pending in a commit is appended immediately
            u = 300
            ops = [I.mk_enum('Operation', 'Create', [u]),
                   I.mk_enum('Operation', 'Update', [u, 'status', NONE(), Some('pending'), dt(0)])]
            twice = c.choose(2, 'status-set-twice')
            if twice:
                ops.append(I.mk_enum('Operation', 'Update', [u, 'status', Some('pending'), Some('completed'), dt(1)]))
                ops.append(I.mk_enum('Operation', 'Update', [u, 'status', Some('completed'), Some('pending'), dt(2)]))
            r = w.commit_replica(ops)
            new = [x.fields[0] if x.variant else None for x in w.working_set()]
            ok = r.variant == 0 and new[:len(old)] == old and new[len(old):] == [u]
            if not c.prove(ok, 'a task that became pending in a commit was not appended once at the end', lambda m: dict(spec, modes=modes, commit_twice=twice),
                           {'class': 'commit-append', 'old': old, 'new': new}):
                return None
            c.cover('commit appends newly pending task')
            spec['commit_twice'] = twice
            # the pending task is deleted outright after an undo point, a rebuild blanks its entry, and the deletion is
            # undone: the undo rebuilds without renumbering, so the re-created pending task must be listed again
            if c.choose(2, 'delete-rebuild-undo'):
                old_task = None
                for u2, tm in w.tasks().items:
                    if u2 == u:
                        old_task = clone_val(tm)
                ops2 = [I.mk_enum('Operation', 'UndoPoint', []), I.mk_enum('Operation', 'Delete', [u, old_task])]
                r = w.commit_replica(ops2)
                ren = bool(c.choose(2, 'renumber-before-undo'))
                r1 = I.block_on(I.call('Replica::rebuild_working_set', [mkref(w.rep), ren]))
                before = [x.fields[0] if x.variant else None for x in w.working_set()]
                ru = I.block_on(I.call('Replica::get_undo_operations', [mkref(w.rep)]))
                r2 = I.block_on(I.call('Replica::commit_reversed_operations', [mkref(w.rep), clone_val(ru.fields[0])])) if ru.variant == 0 else ru
                spec['undo_delete'] = {'renumber': ren}
                if r.variant != 0 or r1.variant != 0 or r2.variant != 0 or r2.fields[0] is not True:
                    c.prove(False, 'delete / rebuild / undo failed', lambda m: dict(spec, modes=modes), {'class': 'undo-err', 'results': [repr(r)[:60], repr(r1)[:60], repr(r2)[:60]]})
                    return None
                new = [x.fields[0] if x.variant else None for x in w.working_set()]
                status = {u2: status_name(c, tm.items[0][1]) if tm.items and not isinstance(tm.items[0][1], str) else
                          (tm.items[0][1] if tm.items and tm.items[0][1] in IN_WS else 'completed') for u2, tm in w.tasks().items}
                bad = check_ws(before, new, status, False)
                if bad:
                    c.prove(False, 'after undoing the deletion of a pending task: ' + bad[0], lambda m: dict(spec, modes=modes),
                            {'class': 'undo-' + bad[1], 'before': before, 'new': new})
                    return None
                c.cover('deleted pending task listed again after undo')
        out = {'spec': dict(spec, modes=modes), 'final': old}
        if c.want_sample:
            out['scenario'] = recipe(dict(spec, modes=modes))
            out['predicted'] = {'working_set': [x.fields[0] if x.variant else None for x in w.working_set()]}
            out['_encoded'] = sorted(I.encoded)
            out['_modelled'] = sorted(I.modelled)
        return out


def check_ws(old, new, status, renumber):
    """the statement, clause by clause; returns (message, class) or None"""
    should = {u for u, s in status.items() if s in IN_WS}
    if not new or new[0] is not None:
        return ('position 0 of the working set is not empty', 'slot0')
    members = [u for u in new if u is not None]
    if len(members) != len(set(members)):
        return ('a task appears twice in the working set', 'duplicate')
    if set(members) != should:
        return ('working set is not exactly the pending/recurring tasks', 'membership')
    oldpos = {u: i for i, u in enumerate(old) if u is not None}
    kept = [u for u in members if u in oldpos]
    newcomers = [u for u in members if u not in oldpos]
    pos = {u: i for i, u in enumerate(new) if u is not None}
    if not renumber:
        for u in kept:
            if pos[u] != oldpos[u]:
                return ('a remaining task changed its number although renumbering was not requested', 'stability')
        in_use = [pos[u] for u in kept]
        for u in newcomers:
            if in_use and pos[u] <= max(in_use):
                return ('a newcomer was not added after all numbers in use', 'newcomer-position')
    else:
        if new[1:] != members:
            return ('renumbered working set has gaps', 'gaps')
        if [u for u in members if u in oldpos] != sorted(kept, key=lambda u: oldpos[u]):
            return ('renumbering changed the relative order of tasks', 'order')
        if kept and newcomers and min(pos[u] for u in newcomers) < max(pos[u] for u in kept):
            return ('a newcomer was numbered before an existing task', 'newcomer-position')
    return None


def recipe(spec):
    """public-API steps that build the prior working set, bring in the newcomers through a sync, and rebuild"""
    steps = []
    slots = spec['slots']

    def upd(u, st, ts=0):
        return {'op': 'update', 'uuid': u, 'prop': 'status', 'value': st, 'ts': ts}
    for i, kind in enumerate(slots):
        u = 100 + i
        first = 'recurring' if kind == 'recurring' else 'pending'
        steps.append({'commit': 0, 'ops': [{'op': 'create', 'uuid': u}, upd(u, first)]})
    gaps = [100 + i for i, k in enumerate(slots) if k == 'gap']
    if gaps:
        steps.append({'commit': 0, 'ops': [upd(u, 'completed', 1) for u in gaps]})
        steps.append({'rebuild': 0, 'renumber': False})
    later = []
    for i, kind in enumerate(slots):
        u = 100 + i
        if kind == 'completed':
            later.append(upd(u, 'completed', 2))
        elif kind == 'missing':
            later.append({'op': 'delete', 'uuid': u})
    if later:
        steps.append({'commit': 0, 'ops': later})
    steps.append({'dump': 0})
    modes = list(spec['modes'])
    if spec['newcomers']:
        ops = []
        for u, st in spec['newcomers']:
            ops += [{'op': 'create', 'uuid': u}, upd(u, st)]
        steps += [{'commit': 1, 'ops': ops}, {'sync': 1}, {'sync': 0}, {'dump': 0}]
        modes = modes[1:]
    for mflag in modes:
        steps += [{'rebuild': 0, 'renumber': bool(mflag)}, {'dump': 0}]
    if 'commit_twice' in spec:
        u = 300
        ops = [{'op': 'create', 'uuid': u}, upd(u, 'pending')]
        if spec['commit_twice']:
            ops += [upd(u, 'completed', 1), upd(u, 'pending', 2)]
        steps += [{'commit': 0, 'ops': ops}, {'dump': 0}]
    if 'undo_delete' in spec:
        steps += [{'commit': 0, 'ops': [{'op': 'undopoint'}, {'op': 'delete', 'uuid': 300}]},
                  {'rebuild': 0, 'renumber': bool(spec['undo_delete']['renumber'])}, {'dump': 0},
                  {'undo': 0}, {'dump': 0}]
    return {'kind': 'sync', 'replicas': 2, 'steps': steps}


def replay_scenario(v):
    return recipe(v['witness'])


def replay_judge(scn, out, v):
    """run the same clause-by-clause statement on consecutive dumps of the compiled crate"""
    if 'panic' in out:
        return True, [{'panic': out['panic']}]
    probs = []
    prev = None
    renumber = False
    is_rebuild = False
    for st, res in zip(scn['steps'], out['steps']):
        if 'err' in res:
            probs.append({'err': res['err']})
        if 'rebuild' in st:
            renumber, is_rebuild = st['renumber'], True
        elif ('sync' in st and st['sync'] == 0) or 'undo' in st:
            renumber, is_rebuild = False, True
        elif 'dump' in st:
            d = res['dump']
            status = {int(u): tm.get('status') for u, tm in d['tasks'].items()}
            if prev is not None and is_rebuild:
                bad = check_ws(prev, d['working_set'], status, renumber)
                if bad:
                    probs.append({'violated': bad[0], 'old': prev, 'new': d['working_set'], 'renumber': renumber})
            elif prev is not None and not is_rebuild:
                # a commit: existing numbers undisturbed, the newly pending task appended once
                new = d['working_set']
                if new[:len(prev)] != prev or new[len(prev):] != [300]:
                    probs.append({'violated': 'commit append', 'old': prev, 'new': new})
            prev = d['working_set']
            is_rebuild = False
    return bool(probs), probs[:3]


def validate_samples(sample, out):
    if 'panic' in out:
        return False, out
    real = out['replicas'][0]['working_set']
    if real != sample['predicted']['working_set']:
        return False, {'predicted': sample['predicted']['working_set'], 'real': real, 'spec': sample.get('spec')}
    return True, None


def required_covers(tier):
    return ['renumbering over old gaps', 'entry whose task vanished, no renumbering', 'commit appends newly pending task',
            'deleted pending task listed again after undo']


def configs(tier):
    if tier == 'quick':
        return [dict(name='ws3', factory=lambda: Harness(3, 1, 2, True, 'ws3'),
                     bounds='prior working set of 0-3 slots, each gap / task with a symbolic status string / task missing; 0-1 newcomer; 1-2 rebuilds in either mode; then a commit making a task pending')]
    return [dict(name='ws4', factory=lambda: Harness(4, 2, 2, True, 'ws4'),
                 bounds='prior working set of 0-4 slots, 0-2 newcomers, 1-2 rebuilds, commit', time_limit_s=3000)]


ASSUMPTIONS = [
    'in-memory storage only; the prior working set and tasks are written into the stored data (replay: built through commits, rebuilds, an outright delete and a sync from a second replica)',
    'newcomers (pending tasks not yet numbered) enter through a sync, whose rebuild does not renumber',
    'HashMap iteration order = insertion order (affects only the order among several newcomers, which the statement leaves open)',
]
EXPLANATION = ('slot shapes are forked, task statuses are symbolic strings whose relation to "pending"/"recurring" is decided by z3 at the comparisons the real code makes; every rebuild result is checked against the statement clause by '
               'clause (membership, uniqueness, slot 0, stability / append-after-maximum without renumbering, 1..n gap-free and '
               'order-preserving with renumbering, immediate append on commit); the same predicate judges the compiled crate in the replay')
