"""C19 — task mutators, their recorded operations and the task model agree.

Real code: Task mutators (set_value, set_status, set_timestamp and the helpers built on them, tags,
annotations, dependencies, UDAs), TaskData::update, Replica::{get_task, create_task, commit_operations,
dependency_map}, Tag parsing, the strum-generated FromStr for reserved names."""
import z3

from mirsym.explore import PathAbort, Panic
from mirsym.parser import Unsupported
from mirsym.values import Adt, clone_val, PyMap, PyVec, Some, NONE, mkref, NumStr, SegStr, TokStr, Ref, LV, deref
from mirsym.models.core import val_eq, z_and, z_all, z_not
from mirsym.models.iterators import Iter, drain_all, to_iter
from .common import get_interp, show, dt
from .localworld import LocalWorld
from .c18 import uuid_str, conc, concrete_key

PROPERTY = 'C19'
LEVEL = 'other'
A, B = 100, 200
STATUSES = ['Pending', 'Completed', 'Deleted', 'Recurring']
STATUS_STR = {'Pending': 'pending', 'Completed': 'completed', 'Deleted': 'deleted', 'Recurring': 'recurring'}

CALLS = ['set_status', 'set_description', 'set_priority', 'set_entry', 'set_wait', 'set_due', 'set_modified', 'set_value', 'start', 'stop',
         'done', 'add_tag', 'remove_tag', 'add_synthetic_tag', 'add_annotation', 'remove_annotation', 'set_uda', 'set_reserved_uda',
         'remove_uda', 'add_dependency', 'remove_dependency']


class Harness:
    def __init__(self, ncalls, calls, name):
        self.I = get_interp()
        self.ncalls, self.calls, self.name = ncalls, calls, name

    def run_path(self, ctx):
        c, I = ctx, self.I
        w = LocalWorld(I, ctx, (), ())
        clock = [c.fresh_int('t0', 1_000_000, 4_000_000_000)]

        def now(I2):
            t = c.fresh_int('now', 0, 4_000_000_000)
            c.assume(t >= clock[-1])
            clock.append(t)
            return dt(t, 0)
        I.env['now'] = now
        tasks = w.tasks()
        # prior state of the task under test; B is a pending task in the working set (dependency target)
        prior = PyMap([])
        exists = c.choose(2, 'task-exists')
        if exists:
            k = c.choose(1 + len(STATUSES), 'prior-status')
            if k:
                prior.items.append(['status', STATUS_STR[STATUSES[k - 1]]])
            if c.choose(2, 'prior-end'):
                prior.items.append(['end', NumStr(c.fresh_int('end0', 0, 4_000_000_000))])
            if c.choose(2, 'prior-start'):
                prior.items.append(['start', NumStr(c.fresh_int('start0', 0, 4_000_000_000))])
            if c.choose(2, 'prior-tag'):
                prior.items.append(['tag_abc', ''])
            tasks.items.append([A, clone_val(prior)])
        tasks.items.append([B, PyMap([['status', 'pending']])])
        ws = w.working_set_of(w.db)
        in_ws = exists and any(k == 'status' and v in ('pending', 'recurring') for k, v in prior.items)
        if in_ws:
            ws.items.append(Some(A))
        ws.items.append(Some(B))
        rep = mkref(w.rep)
        ops_cell = [PyVec([])]
        opsref = Ref(LV(ops_cell, 0))
        if exists:
            r = I.block_on(I.call('Replica::get_task', [rep, A]))
            task = r.fields[0].fields[0]
        else:
            r = I.block_on(I.call('Replica::create_task', [rep, A, opsref]))
            task = r.fields[0]
        t = mkref(task)
        script = []
        ref = {k: v for k, v in prior.items}            # reference model of the task contents
        touched_modified_implicitly = 0
        first_mutation_done = False
        explicit_modified = 0

        def wit(m):
            return {'exists': bool(exists), 'prior': {k: conc(v, m) for k, v in prior.items}, 'calls': show(script, m)}

        def fresh_str(label):
            return w.fresh_value(label)
        tag_abc = I.call('<Tag as FromStr>::from_str', ['abc']).fields[0]
        tag_syn = I.call('<Tag as FromStr>::from_str', ['PENDING']).fields[0]
        ann_ts = []
        for step in range(self.ncalls):
            name = self.calls[c.choose(len(self.calls), 'call')]
            nops0 = len(ops_cell[0].items)
            want_err = False
            mutates = True
            explicit_mod_call = False
            if name == 'set_status':
                s = STATUSES[c.choose(len(STATUSES), 'status')]
                script.append((name, s))
                had_end = 'end' in ref
                r = I.call('Task::set_status', [t, I.mk_enum('Status', s, []), opsref])
                if s in ('Pending', 'Recurring'):
                    ref.pop('end', None)
                else:
                    if not had_end:
                        ref['end'] = '<now>'
                ref['status'] = STATUS_STR[s]
            elif name in ('set_description', 'set_priority'):
                v = fresh_str('text')
                script.append((name, v))
                r = I.call('Task::' + name, [t, v, opsref])
                ref['description' if name == 'set_description' else 'priority'] = v
            elif name in ('set_entry', 'set_wait', 'set_due'):
                some = c.choose(2, 'some')
                ts = c.fresh_int('tsarg', 0, 4_000_000_000)
                script.append((name, ts if some else None))
                r = I.call('Task::' + name, [t, Some(dt(ts)) if some else NONE(), opsref])
                key = name[4:]
                if some:
                    ref[key] = NumStr(ts)
                else:
                    ref.pop(key, None)
            elif name == 'set_modified':
                ts = c.fresh_int('tsarg', 0, 4_000_000_000)
                script.append((name, ts))
                r = I.call('Task::set_modified', [t, dt(ts), opsref])
                ref['modified'] = NumStr(ts)
                explicit_mod_call = True
            elif name == 'set_value':
                key = ['foo', 'modified', 'status'][c.choose(3, 'key')]
                some = c.choose(2, 'some')
                v = fresh_str('val')
                script.append((name, key, v if some else None))
                r = I.call('Task::set_value', [t, key, Some(v) if some else NONE(), opsref])
                if some:
                    ref[key] = v
                else:
                    ref.pop(key, None)
                explicit_mod_call = key == 'modified'
            elif name == 'start':
                script.append((name,))
                active = 'start' in ref
                r = I.call('Task::start', [t, opsref])
                if active:
                    mutates = False
                else:
                    ref['start'] = '<now>'
            elif name == 'stop':
                script.append((name,))
                r = I.call('Task::stop', [t, opsref])
                ref.pop('start', None)
            elif name == 'done':
                script.append((name,))
                had_end = 'end' in ref
                r = I.call('Task::done', [t, opsref])
                if not had_end:
                    ref['end'] = '<now>'
                ref['status'] = 'completed'
            elif name in ('add_tag', 'remove_tag'):
                script.append((name, 'abc'))
                r = I.call('Task::' + name, [t, mkref(tag_abc), opsref])
                if name == 'add_tag':
                    ref['tag_abc'] = ''
                else:
                    ref.pop('tag_abc', None)
            elif name == 'add_synthetic_tag':
                script.append(('add_tag', 'PENDING'))
                r = I.call('Task::add_tag', [t, mkref(tag_syn), opsref])
                want_err, mutates = True, False
            elif name in ('add_annotation', 'remove_annotation'):
                # the entry time is either one used before (same key) or a new, different one
                k = c.choose(1 + len(ann_ts), 'annotation-time')
                if k == 0:
                    ts = c.fresh_int('annts', 0, 4_000_000_000)
                    for prev in ann_ts:
                        c.assume(ts != prev)
                    ann_ts.append(ts)
                else:
                    ts = ann_ts[k - 1]
                if name == 'add_annotation':
                    d = fresh_str('note')
                    script.append((name, ts, d))
                    r = I.call('Task::add_annotation', [t, Adt('Annotation', 0, [dt(ts), d]), opsref])
                    ref[('annotation', ts.get_id())] = (ts, d)
                else:
                    script.append((name, ts))
                    r = I.call('Task::remove_annotation', [t, dt(ts), opsref])
                    ref.pop(('annotation', ts.get_id()), None)
            elif name in ('set_uda', 'remove_uda'):
                key = ['foo', 'ns.key'][c.choose(2, 'uda-key')]
                if name == 'set_uda':
                    v = fresh_str('uda')
                    script.append((name, key, v))
                    r = I.call('Task::set_user_defined_attribute', [t, key, v, opsref])
                    ref[key] = v
                else:
                    script.append((name, key))
                    r = I.call('Task::remove_user_defined_attribute', [t, key, opsref])
                    ref.pop(key, None)
            elif name == 'set_reserved_uda':
                key = ['status', 'tag_x', 'annotation_1', 'dep_x', 'modified', 'end'][c.choose(6, 'reserved')]
                script.append(('set_uda', key, 'x'))
                r = I.call('Task::set_user_defined_attribute', [t, key, 'x', opsref])
                want_err, mutates = True, False
            else:
                script.append((name, B))
                r = I.call('Task::' + name, [t, B, opsref])
                key = 'dep_' + uuid_str(B)
                if name == 'add_dependency':
                    ref[key] = ''
                else:
                    ref.pop(key, None)
            new_ops = ops_cell[0].items[nops0:]
            if want_err:
                if not c.prove(r.variant == 1 and not new_ops, 'a reserved name / synthetic tag was accepted (or recorded operations)', wit,
                               {'class': 'reserved-accepted', 'call': script[-1][0]}):
                    return None
                c.cover('reserved name rejected')
                continue
            if r.variant != 0:
                c.prove(False, 'a mutator returned Err', wit, {'class': 'mutator-err', 'call': name, 'err': repr(r)[:100]})
                return None
            # --- 'modified' refreshed exactly once per session, never when set explicitly
            mod_ops = [o for o in new_ops if o.variant == 2 and o.fields[1] == 'modified']
            exp_mod = (1 if explicit_mod_call else 0)
            if mutates and not first_mutation_done and not explicit_mod_call:
                exp_mod += 1
                ref['modified'] = '<now>'
            if mutates:
                first_mutation_done = True
            if not c.prove(len(mod_ops) == exp_mod, "the modification time was not refreshed exactly once per session (or was touched by an explicit set)", wit,
                           {'class': 'modified-refresh', 'call': name, 'modified_ops': len(mod_ops), 'expected': exp_mod}):
                return None
        all_ops = ops_cell[0].items
        # --- every recorded update carries the value the property really had before
        cur = {self.keyrepr(k): v for k, v in prior.items} if exists else {}
        for o in all_ops:
            if o.variant == 2:
                k = self.keyrepr(o.fields[1])
                old = o.fields[2]
                exp = cur.get(k)
                ok = (old.variant == 0) if exp is None else (old.variant == 1 and val_eq(old.fields[0], exp))
                if not c.prove(ok, 'a recorded update does not carry the value the property had before', wit, {'class': 'old-value', 'prop': repr(k)[:40]}):
                    return None
                if o.fields[3].variant == 1:
                    cur[k] = o.fields[3].fields[0]
                else:
                    cur.pop(k, None)
        # --- the held task equals the reference model (end / start / modified only as present-or-absent + time source)
        held = task.fields[0].fields[1]
        if not self.same_as_ref(c, held, ref, clock, wit, 'held task'):
            return None
        # --- commit; the stored task is identical to the held one
        r = w.commit_replica([clone_val(o) for o in all_ops]) if all_ops else None
        if r is not None and r.variant != 0:
            c.prove(False, 'commit failed', wit, {'class': 'commit-err'})
            return None
        stored = None
        for u, tm in w.tasks().items:
            if u == A:
                stored = tm
        if stored is None:
            if not c.prove(not exists and not all_ops, 'task missing after commit', wit, {'class': 'stored-missing'}):
                return None
            return {'calls': [s[0] for s in script]}
        if not c.prove(val_eq(stored, held), 'the stored task differs from the task object the caller was holding', wit, {'class': 'stored-vs-held'}):
            return None
        # --- reload: synthetic tags and the dependency map reflect the stored data
        rel = I.block_on(I.call('Replica::get_task', [rep, A])).fields[0].fields[0]
        rt = mkref(rel)
        smap = {self.keyrepr(k): v for k, v in stored.items}
        status = smap.get('status', 'pending')
        checks = [('is_active', I.call('Task::is_active', [rt]), 'start' in smap)]
        st = I.call('Task::get_status', [rt])
        checks.append(('get_status', st.variant == {'pending': 0, 'completed': 1, 'deleted': 2, 'recurring': 3}.get(status, 4) if isinstance(status, str) else True, True))
        if isinstance(status, str):
            for synth, exp in (('PENDING', status == 'pending'), ('COMPLETED', status == 'completed'), ('DELETED', status == 'deleted')):
                tg = I.call('<Tag as FromStr>::from_str', [synth]).fields[0]
                checks.append(('has_tag ' + synth, I.call('Task::has_tag', [rt, mkref(tg)]), exp))
        checks.append(('has_tag abc', I.call('Task::has_tag', [rt, mkref(tag_abc)]), 'tag_abc' in smap))
        in_ws_now = any(x.variant and x.fields[0] == A for x in w.working_set())
        dep_key = 'dep_' + uuid_str(B)
        exp_blocked = in_ws_now and dep_key in smap
        checks.append(('is_blocked', I.call('Task::is_blocked', [rt]), exp_blocked))
        for nm, got, exp in checks:
            if not c.prove(val_eq(got, exp) if not isinstance(got, bool) else got == exp, 'a reader disagrees with the stored data: ' + nm, wit,
                           {'class': 'reader-vs-stored', 'reader': nm, 'got': repr(got)[:40], 'expected': exp}):
                return None
        if exp_blocked:
            c.cover('dependency map edge')
            # the dependency target is then purged (TaskData::delete + commit): the cached dependency map must not survive
            if c.choose(2, 'purge-target'):
                script.append(('purge_target', B))
                tdr = I.block_on(I.call('Replica::get_task_data', [rep, B]))
                td = tdr.fields[0].fields[0]
                pops = [PyVec([])]
                I.call('TaskData::delete', [mkref(td), Ref(LV(pops, 0))])
                r2 = w.commit_replica(pops[0].items)
                if r2.variant != 0:
                    c.prove(False, 'purge commit failed', wit, {'class': 'commit-err'})
                    return None
                rel2 = I.block_on(I.call('Replica::get_task', [rep, A])).fields[0].fields[0]
                blocked = I.call('Task::is_blocked', [mkref(rel2)])
                dm = I.block_on(I.call('Replica::dependency_map', [rep, False])).fields[0]
                dmr = dm if isinstance(dm, Ref) else mkref(deref(dm))
                deps = drain_all(I, to_iter(I, I.call('DependencyMap::dependencies', [dmr, A])))
                if not c.prove(blocked is False and not deps, 'after the dependency target was purged the task still reports it (stale dependency map)', wit,
                               {'class': 'stale-depmap', 'is_blocked': repr(blocked), 'dependencies': len(deps)}):
                    return None
                c.cover('dependency target purged')
        if len(all_ops) >= 3:
            c.cover('three or more operations recorded')
        out = {'calls': [s[0] for s in script], 'ops': len(all_ops)}
        if c.want_sample:
            m = c.get_model()
            if m is not None:
                out['scenario'] = dict(wit(m), kind='model', what='task_mutators')
                out['predicted'] = {'nops': len(all_ops)}
                out['_encoded'] = sorted(I.encoded)
                out['_modelled'] = sorted(I.modelled)
        return out

    @staticmethod
    def keyrepr(k):
        k = deref(k)
        if isinstance(k, SegStr) and len(k.segs) == 2 and k.segs[0] == 'annotation_':
            return ('annotation', k.segs[1][1].get_id())
        return k

    def same_as_ref(self, c, held, ref, clock, wit, what):
        hm = {}
        for k, v in held.items:
            hm[self.keyrepr(k)] = v
        # annotation keys are symbolic integers: compare by solver
        plain_ref = {k: v for k, v in ref.items() if not isinstance(k, tuple)}
        plain_held = {k: v for k, v in hm.items() if not isinstance(k, tuple)}
        if set(plain_ref) != set(plain_held):
            c.prove(False, what + ' has other properties than the task model prescribes', wit,
                    {'class': 'model-keys', 'held': sorted(map(str, plain_held)), 'expected': sorted(map(str, plain_ref))})
            return False
        for k, v in plain_ref.items():
            hv = plain_held[k]
            if isinstance(v, str) and v == '<now>':
                ok = isinstance(hv, NumStr) and z_all([z3.Or(*[hv.v == t for t in clock[1:]])]) if len(clock) > 1 else False
                if ok is False or not c.prove(ok, what + ': a time-valued property was not set from the clock', wit, {'class': 'model-time', 'prop': k}):
                    if ok is False:
                        c.prove(False, what + ': a time-valued property was not set from the clock', wit, {'class': 'model-time', 'prop': k})
                    return False
            else:
                if not c.prove(val_eq(hv, v), what + ' differs from the task model', wit, {'class': 'model-value', 'prop': k}):
                    return False
        ann_ref = {k: v for k, v in ref.items() if isinstance(k, tuple)}
        ann_held = {k: v for k, v in hm.items() if isinstance(k, tuple)}
        if set(ann_ref) != set(ann_held):
            c.prove(False, what + ': annotations present differ from those written and not removed', wit, {'class': 'annotation-keys'})
            return False
        for k, (ts, d) in ann_ref.items():
            if not c.prove(val_eq(ann_held[k], d), what + ': an annotation does not read back as written', wit, {'class': 'annotation'}):
                return False
        return True


def replay_scenario(v):
    return dict(v['witness'], kind='model', what='task_mutators')


def replay_judge(scn, out, v):
    if 'panic' in out:
        return True, [{'panic': out['panic']}]
    probs = list(out.get('problems', []))
    return bool(probs), probs[:3]


def validate_samples(sample, out):
    if 'panic' in out or out.get('problems'):
        return False, {'real': out, 'scenario': sample['scenario']}
    if out.get('nops') != sample['predicted']['nops']:
        return False, {'predicted_ops': sample['predicted']['nops'], 'real': out.get('nops'), 'scenario': sample['scenario']}
    return True, None


def required_covers(tier):
    return ['reserved name rejected', 'three or more operations recorded', 'dependency map edge', 'dependency target purged']


def configs(tier):
    core = ['set_status', 'set_value', 'start', 'stop', 'done', 'set_modified', 'set_entry']
    extra = ['add_tag', 'remove_tag', 'add_synthetic_tag', 'add_annotation', 'remove_annotation', 'set_uda', 'set_reserved_uda', 'remove_uda',
             'add_dependency', 'remove_dependency', 'set_description', 'set_wait', 'set_due', 'set_priority']
    if tier == 'quick':
        return [dict(name='status-time-2', factory=lambda: Harness(2, core, 'c2'),
                     bounds='prior task absent or present with status/end/start/tag each optional; 2 mutator calls out of 7 status/time/value mutators; symbolic non-decreasing clock and arguments'),
                dict(name='tags-udas-deps-2', factory=lambda: Harness(2, extra, 'e2'),
                     bounds='2 mutator calls out of 14 tag/annotation/UDA/dependency/text mutators')]
    return [dict(name='status-time-3', factory=lambda: Harness(3, core, 'c3'), bounds='3 mutator calls out of the 7 status/time/value mutators', time_limit_s=3300),
            dict(name='tags-deps-3', factory=lambda: Harness(3, ['add_tag', 'remove_tag', 'add_annotation', 'remove_annotation', 'add_dependency', 'remove_dependency', 'set_status'], 'e3'),
                 bounds='3 calls out of 7 tag/annotation/dependency mutators and set_status', time_limit_s=3300),
            dict(name='mixed-2', factory=lambda: Harness(2, core + extra, 'a2'), bounds='2 calls out of all 21 mutators', time_limit_s=3300)]


ASSUMPTIONS = [
    'one editing session = one Task object; values are abstract string tokens, times symbolic integers; Utc::now is a non-decreasing symbolic clock',
    'in-memory storage; the prior task is written into the stored data; a second pending task is the dependency target',
    'replay: the compiled crate reads the real clock, so the replay re-checks the rules structurally (presence of end/start/modified, operation counts, old values, stored == held)',
]
EXPLANATION = ('mutator kinds forked, arguments/clock/prior values symbolic; z3 must refute: stored != held, a wrong recorded old value, end not '
               'maintained, modified not refreshed exactly once (or touched by an explicit set), tags/annotations/UDAs/dependencies not reading '
               'back, reserved names accepted, synthetic tags / dependency map disagreeing with the stored data')
