"""C03 — no lost updates; documented conflict winners, independent of sync order.

Concurrent (and causally ordered) operations on a shared task, every sync order executed on the real
code inside one path; final states are compared with each other and with an independent statement of
the documented winner rules."""
import itertools

import z3

from mirsym.explore import PathAbort, Panic
from mirsym.values import clone_val, TokStr, PyMap, is_sym, STRLEN
from mirsym.models.core import val_eq, z_and, z_or, z_not, z_all, z_any
from .common import get_interp, tasks_eq, show, ModelServer, ref_apply
from .syncworld import SyncWorld, concrete_value

PROPERTY = 'C03'
LEVEL = 'model_checking'


class Harness:
    def __init__(self, nrep, max_ops, props, mode, name):
        self.I = get_interp()
        if isinstance(max_ops, int):
            max_ops = [max_ops] * nrep
        self.nrep, self.max_ops, self.props, self.mode, self.name = nrep, max_ops, props, mode, name

    def base(self, w):
        """common synced state: the task exists everywhere, property p possibly set"""
        c = w.ctx
        with_p = c.choose(2, 'base-has-p')
        w.do_commit(0, 1, allow_delete=False)                  # create
        if with_p:
            w.force_op = ('set', 1, self.props[0])
            w.do_commit(0, 1)
        for r in range(self.nrep):
            w.do_sync(r)

    def run_path(self, ctx):
        c = ctx
        w = SyncWorld(self.I, ctx, self.nrep, (1,), self.props, max_str=64)
        self.base(w)
        s0 = [[k, clone_val(v)] for k, v in w.tasks_of(w.dbs[0]).items]
        if self.mode == 'causal':
            return self.causal(w, s0)
        # concurrent operations
        per = []
        for r in range(self.nrep):
            n = 1 + c.choose(self.max_ops[r], 'nops')
            ops = w.do_commit(r, n)
            per.append(ops)
        pre_dbs = [clone_val(d) for d in w.dbs]
        pre_chain = list(w.server.chain)
        finals = []
        orders = list(itertools.permutations(range(self.nrep)))
        for order in orders:
            finals.append(self.run_order(w, pre_dbs, pre_chain, order))
        w.history.append({'orders': [list(o) for o in orders]})
        for i in range(1, len(finals)):
            if not c.prove(tasks_eq(finals[0], finals[i]), 'final state depends on the order of synchronization', w.witness,
                           {'class': 'order-dependent', 'orders': [list(orders[0]), list(orders[i])]}):
                return None
        exp = self.documented_winner(w, s0, per)
        if exp is not None:
            c.cover('winner oracle applied')
            if not c.prove(exp(finals[0]), 'final state is not the documented winner', w.witness,
                           {'class': 'wrong-winner'}):
                return None
        o0 = list(orders[0])
        return w.sample({'orders': len(orders)}, final_tasks=finals[0], extra_steps=[{'sync': r} for r in (o0 + o0 + o0)])

    def run_order(self, w, pre_dbs, pre_chain, order):
        srv = ModelServer(w)
        srv.chain = list(pre_chain)
        dbs = [clone_val(d) for d in pre_dbs]
        seq = list(order) + list(order) + list(order)
        for r in seq:
            res = w.sync(dbs[r], srv, client=r)
            if res.variant != 0:
                w.ctx.prove(False, 'sync returned Err', w.witness, {'class': 'sync-err'})
                raise PathAbort()
        first = [[k, v] for k, v in w.tasks_of(dbs[0]).items]
        for r in range(1, len(dbs)):
            other = [[k, v] for k, v in w.tasks_of(dbs[r]).items]
            if not w.ctx.prove(tasks_eq(first, other), 'replicas differ after all synced', w.witness, {'class': 'diverged'}):
                raise PathAbort()
        return first

    def documented_winner(self, w, s0, per):
        """independent statement of the rules (docs/src/sync-model.md, SyncOp docs), for histories where every
        replica touches each property at most once and nobody re-creates the task:
          any concurrent delete removes the task; otherwise per property the update with the latest timestamp
          wins (on a tie: one of the tied values); untouched properties keep their value"""
        deleted = False
        upd = {}      # prop -> [(ts, valueOption)]
        for ops in per:
            seen = set()
            for o in ops:
                if o.variant == 1:
                    deleted = True
                elif o.variant == 0:
                    return None
                elif o.variant == 2:
                    p = o.fields[1]
                    if p in seen:
                        return None
                    seen.add(p)
                    upd.setdefault(p, []).append((o.fields[4].fields[0], o.fields[3]))
            # an update after the replica's own delete is impossible (invalid), updates before a delete die with it
        base = {k: v for k, v in s0[0][1].items} if s0 else {}

        def check(final):
            if deleted:
                return len(final) == 0
            if len(final) != 1:
                return False
            tm = final[0][1]
            cur = {k: v for k, v in tm.items}
            res = True
            for p in self.props:
                cands = upd.get(p)
                if not cands:
                    if p in base:
                        res = z_and(res, val_eq(cur[p], base[p]) if p in cur else False)
                    else:
                        res = z_and(res, p not in cur)
                    continue
                # winner: max timestamp; candidates with max ts are all acceptable
                alts = []
                for i, (ts, val) in enumerate(cands):
                    is_max = z_all((ts >= t2) for j, (t2, _) in enumerate(cands) if j != i)
                    if val.variant == 1:
                        ok = val_eq(cur[p], val.fields[0]) if p in cur else False
                    else:
                        ok = p not in cur
                    alts.append(z_and(is_max, ok))
                res = z_and(res, z_any(alts))
            return res
        return check

    def causal(self, w, s0):
        """a change made after seeing another replica's change overrides it regardless of timestamps"""
        c = w.ctx
        ops1 = w.do_commit(0, 1)
        w.do_sync(0)
        w.do_sync(1)
        if not w.present(w.dbs[1], 1):
            raise PathAbort()        # the first change deleted the task: nothing to override
        ops2 = w.do_commit(1, 1)
        w.do_sync(1)
        w.do_sync(0)
        ref = [[k, clone_val(v)] for k, v in s0]
        for o in ops1 + ops2:
            ref_apply(self.I, ref, clone_val(o))
        for r in (0, 1):
            if not c.prove(tasks_eq(w.replica_tasks(r), ref), 'a later change did not override the change it had seen',
                           w.witness, {'class': 'causal-override'}):
                return None
        c.cover('causal override checked')
        return w.sample()


def replay_scenario(v):
    wit = v['witness']
    steps = [s for s in wit['steps'] if 'orders' not in s]
    orders = None
    for s in wit['steps']:
        if 'orders' in s:
            orders = s['orders']
    if orders is None:
        return dict(wit, kind='sync', steps=steps)
    out = []
    for o in orders:
        out.append(dict(wit, kind='sync', steps=steps + [{'sync': r} for r in (o + o + o)]))
    return out


def _val_key(v):
    """order of concrete values as the replay renders them (ids zero-padded, so id order = byte order)"""
    if v is None:
        return (0, 0)
    if isinstance(v, dict):
        return (1, v['id'])
    return (1, str(v))


def concrete_winner(steps):
    """documented winner on a concrete scenario (python re-statement of the rules).  Returns
    (expected_task_or_None_if_deleted, acceptable_values_per_prop) or None outside the oracle's domain"""
    base = None
    per = {}
    synced_once = False
    for s in steps:
        if 'sync' in s:
            synced_once = True
        elif 'commit' in s:
            if not synced_once:
                for o in s['ops']:
                    if o['op'] == 'create':
                        base = {}
                    elif o['op'] == 'update' and base is not None:
                        if o['value'] is None:
                            base.pop(o['prop'], None)
                        else:
                            base[o['prop']] = o['value']
            else:
                per.setdefault(s['commit'], []).extend(s['ops'])
    if base is None:
        return None
    deleted = False
    upd = {}
    for r, ops in per.items():
        seen = set()
        for o in ops:
            if o['op'] == 'delete':
                deleted = True
            elif o['op'] == 'create':
                return None
            elif o['op'] == 'update':
                if o['prop'] in seen:
                    return None
                seen.add(o['prop'])
                upd.setdefault(o['prop'], []).append((o['ts'], o['value']))
    if deleted:
        return ('deleted', None)
    acceptable = {}
    for p in set(base) | set(upd):
        if p not in upd:
            acceptable[p] = [base[p]]
        else:
            tmax = max(t for t, _ in upd[p])
            acceptable[p] = [v for t, v in upd[p] if t == tmax]
    return ('present', acceptable)


def judge_winner(scn_steps, final):
    exp = concrete_winner(scn_steps)
    if exp is None:
        return None
    if exp[0] == 'deleted':
        return None if final == {} else {'expected': 'task deleted', 'final': final}
    task = final.get('1')
    if task is None:
        return {'expected': 'task present', 'final': final}
    for p, ok_vals in exp[1].items():
        got = task.get(p)
        if got not in ok_vals:
            return {'property': p, 'acceptable': ok_vals, 'got': got}
    extra = set(task) - set(exp[1])
    if extra:
        return {'unexpected_properties': sorted(extra)}
    return None


def replay_judge(scn, out, v):
    probs = []
    outs = out if isinstance(out, list) else [out]
    finals = []
    for o in outs:
        if 'panic' in o:
            probs.append({'panic': o['panic']})
            continue
        reps = [r['tasks'] for r in o['replicas']]
        for i in range(1, len(reps)):
            if reps[i] != reps[0]:
                probs.append({'diverged': reps})
        for st in o['steps']:
            if 'err' in st:
                probs.append({'err': st['err']})
        finals.append(reps[0])
    for i in range(1, len(finals)):
        if finals[i] != finals[0]:
            probs.append({'order_dependent': [finals[0], finals[i]]})
    cls = v.get('info', {}).get('class')
    steps = (scn[0] if isinstance(scn, list) else scn)['steps']
    if not probs and finals:
        if cls == 'causal-override':
            # sequential application of the two changes is the documented outcome
            from .c05 import py_ref
            tasks = {}
            for st in steps:
                if 'commit' in st:
                    for o in st['ops']:
                        py_ref(tasks, o)
            if finals[0] != tasks:
                probs.append({'final_on_real_code': finals[0], 'expected_sequential': tasks})
        else:
            w = judge_winner(steps, finals[0])
            if w:
                probs.append({'wrong_winner_on_real_code': w})
    return bool(probs), probs[:3]


def validate_samples(sample, out):
    pred = sample['predicted']['replicas']
    real = [r['tasks'] for r in out.get('replicas', [])]
    if real != pred:
        return False, {'predicted': pred, 'real': real}
    return True, None


def required_covers(tier):
    return ['winner oracle applied', 'causal override checked']


def configs(tier):
    if tier == 'quick':
        return [
            dict(name='pair-concurrent', factory=lambda: Harness(2, [2, 2], ('p', 'q'), 'concurrent', 'pc'),
                 bounds='2 replicas, 1-2 concurrent ops each, shared task with 2 properties, both sync orders'),
            dict(name='pair-causal', factory=lambda: Harness(2, 1, ('p', 'q'), 'causal', 'ca'),
                 bounds='2 replicas, one change each, the second made after seeing the first'),
            dict(name='triple-concurrent', factory=lambda: Harness(3, 1, ('p', 'q'), 'concurrent', 'tc'),
                 bounds='3 replicas, 1 op each, 2 properties, all 6 sync orders'),
        ]
    return [
        dict(name='pair-concurrent', factory=lambda: Harness(2, 2, ('p', 'q'), 'concurrent', 'pc'),
             bounds='2 replicas, 1-2 concurrent ops each, 2 properties, both sync orders'),
        dict(name='triple-concurrent', factory=lambda: Harness(3, 1, ('p', 'q'), 'concurrent', 'tc'),
             bounds='3 replicas, 1 op each, 2 properties, all 6 sync orders', time_limit_s=3000),
        dict(name='pair-causal', factory=lambda: Harness(2, 1, ('p', 'q'), 'causal', 'ca'),
             bounds='2 replicas, causally ordered changes'),
    ]


ASSUMPTIONS = [
    'winner oracle domain: every replica touches each property at most once and nobody re-creates the task; outside it only order-independence and convergence are asserted',
    'on equal timestamps the oracle accepts either tied value (the docs name no winner) but the outcome must still not depend on the sync order',
    'reference server model, InMemoryStorage from MIR, injective JSON codec, association-list maps',
]
EXPLANATION = ('operation kinds forked; timestamps and values are z3 terms so earlier/later/equal and equal/different values '
               'are all inside each query; every sync order is run on the real code inside the same path and the negated '
               'equalities (order independence, documented winner, causal override) must be unsat')


# Engine K: the compiled transform against the documented conflict table and its mirror symmetry, all pairs of operations over
# 3 uuids, strings of length 0-1 over two letters, timestamps in 0..4e9 (thorough tier: 2-6 minutes of CBMC)
KANI = {
    'quick': [],
    'thorough': [('k_transform_table', 'SUCCESSFUL'), ('k_transform_table_reach', 'FAILED'), ('k_transform_symmetric', 'SUCCESSFUL')],
}
KANI_TIMEOUT = 1500
