"""C10 — object-store cleanup never deletes history that is still needed.

Real CloudServer::cleanup (listing, sort, binary search, reverse chain walk, age filter, deletions) on a
symbolic store content, interleaved at request granularity with another client's add_version /
add_snapshot / cleanup, and stopped after any of its deletions."""
import z3

from mirsym.explore import PathAbort, Panic
from mirsym.parser import Unsupported
from mirsym.values import Adt, clone_val, PyVec, Some, NONE, SegStr
from mirsym.models.core import val_eq, z_and, z_all, z_any, z_not, z_or
from .common import get_interp, show, Scheduler
from .cloudworld import CloudWorld, replay_scenario, replay_judge, validate_samples  # noqa: F401
from .c09 import Program, Then, is_add_result

PROPERTY = 'C10'
REPLAY_RETRIES = 2
LEVEL = 'model_checking'
AGE = 3600 * 24 * 180


class Harness:
    def __init__(self, maxchain, orphans, others, stops, name, page_size=100):
        self.I = get_interp()
        self.maxchain, self.orphans, self.others, self.stops, self.name, self.page_size = maxchain, orphans, others, stops, name, page_size

    def run_path(self, ctx):
        c, I = ctx, self.I
        w = CloudWorld(I, ctx, self.page_size)
        now = w.system_now()
        c.assume(now >= 2 * AGE)
        I.env['rand_byte'] = lambda I2, n, i: 200 if n == 1 else None      # no implicit cleanup: it is started explicitly
        a_srv = w.new_server(0)[0]
        b_srv = w.new_server(1)[0]
        # --- initial content: a chain built through the real add_version, snapshots through add_snapshot
        n = 1 + c.choose(self.maxchain, 'chain-length')
        chain = []
        parent = 0
        for k in range(n):
            pl = w.payload(1)
            r = w.run(w.f_add_version(a_srv, parent, clone_val(pl)))
            vid = r.fields[0].fields[0].fields[0]
            chain.append((parent, vid, pl))
            parent = vid
        snaps = []
        for k in range(n):
            if c.choose(2, 'snapshot-at'):
                spl = w.payload(1)
                w.run(w.f_add_snapshot(a_srv, chain[k][1], clone_val(spl)))
                snaps.append((chain[k][1], spl, k))
        # leftovers of lost races / uploads in flight
        orph = []
        for k in range(c.choose(self.orphans + 1, 'orphans')):
            kind = c.choose(2, 'orphan-parent')          # 0: child of the latest (upload in flight), 1: child of an older version
            p = chain[-1][1] if kind == 0 else chain[0][0] if n == 1 else chain[-2][1]
            cid = w.new_uuid()
            w.tweak_put(SegStr(['v-', ('uuid', p), '-', ('uuid', cid)]), PyVec([0]), now)
            orph.append((p, cid, kind))
        # object ages: symbolic, old or young is decided by z3 at the comparison cleanup makes
        for o in w.store.objs:
            if isinstance(o['name'], SegStr):
                t = c.fresh_int('created', 0, 4_000_000_000)
                c.assume(t <= now)
                w.tweak_creation(o, t)
                # the compiled cleanup compares ages with the real clock, which moves while the replay runs: scenarios that
                # are replayed are chosen (when such a model exists) with every age at least an hour away from the
                # retention threshold; the exploration itself covers the threshold exactly
                c.prefer.append(z3.Or(t < now - AGE - 3600, t > now - AGE + 3600))
        initial = [dict(o) for o in w.store.objs]
        # --- the race: A cleans up, B does something else
        other = self.others[c.choose(len(self.others), 'other-client')]
        stop_after = [None, 0, 1, 2][c.choose(self.stops + 1, 'cleanup-stops-after')]
        dels = {'n': 0}
        a_handle = w.servers[0][1]

        def a_fault(I2, kind, name, idx):
            if kind == 'del' and stop_after is not None:
                if dels['n'] >= stop_after:
                    return 'before'
                dels['n'] += 1
            return None
        a_handle.fault = a_fault
        accepted_b = []
        progs = [Program(I, [lambda rs: w.f_cleanup(a_srv)])]
        if other == 'add_version':
            bpl = w.payload(1)
            progs.append(Program(I, [lambda rs: Then(w.f_add_version(b_srv, chain[-1][1], clone_val(bpl)),
                                                     lambda r: (accepted_b.append(r), r)[1])]))
        elif other == 'add_snapshot':
            # a snapshot is uploaded right after its version was accepted: the request names a version at or after the
            # newest snapshot already stored (a request delayed past the retention age, naming a version whose
            # successors have meanwhile grown old, been covered by a newer snapshot and been deleted, is outside)
            lo = max([k0 for _, _, k0 in snaps], default=0)
            k = lo + c.choose(n - lo, 'snapshot-version')
            spl = w.payload(1)
            progs.append(Program(I, [lambda rs: w.f_add_snapshot(b_srv, chain[k][1], clone_val(spl))]))
            snaps.append((chain[k][1], spl, k))
        elif other == 'cleanup':
            progs.append(Program(I, [lambda rs: w.f_cleanup(b_srv)]))
        sched = Scheduler(I, ctx, clients=[0, 1])
        sched.READS = ('get', 'list')
        w.begin_race()
        results = sched.run(progs, 'svc', max_steps=400)
        w.end_race(sched)
        a_handle.fault = None

        def wit(m):
            scn, pred = w.record(m)
            return {'cloud': {'scenario': scn, 'predicted': pred}, 'chain': show([(p, v) for p, v, _ in chain], m), 'snapshots_at': [k for _, _, k in snaps], 'orphans': show(orph, m),
                    'other': other, 'stop_after': stop_after, 'schedule': [(t, lab) for t, lab in sched.trace],
                    'ages': show([(o['name'].segs if isinstance(o['name'], SegStr) else o['name'], o['creation']) for o in initial], m), 'now': show(now, m)}
        # B's calls must succeed (A's cleanup may have been stopped on purpose)
        for r in results[1] if len(results) > 1 else []:
            if r.variant != 0:
                c.prove(False, 'the other client\'s call failed while a cleanup was running', wit, {'class': 'other-err', 'err': repr(r)[:160]})
                return None
        if stop_after is None and results[0][0].variant != 0:
            c.prove(False, 'cleanup returned Err', wit, {'class': 'cleanup-err', 'err': repr(results[0][0])[:160]})
            return None
        logical = list(chain)
        if accepted_b and is_add_result(accepted_b[0]) and accepted_b[0].fields[0].fields[0].variant == 0:
            logical.append((chain[-1][1], accepted_b[0].fields[0].fields[0].fields[0], bpl))
            c.cover('a version was added while cleanup ran')
        # --- what survived
        present = w.store.objs

        def has_version(vid):
            return z_any(val_eq(ch, vid) for _, ch, _ in w.version_objects())

        def has_snapshot(vid):
            return z_any(val_eq(sv, vid) for sv, _ in w.snapshot_objects())
        deleted_any = len([o for o in initial if isinstance(o['name'], SegStr)]) > len([o for o in present if isinstance(o['name'], SegStr)]) - (1 if len(logical) > len(chain) else 0)
        if deleted_any:
            c.cover('cleanup deleted something')
        # newest retained snapshot on the logical chain
        idx_snap = -1
        for k, (p, vid, pl) in enumerate(logical):
            if c.branch(has_snapshot(vid)) if not isinstance(has_snapshot(vid), bool) else has_snapshot(vid):
                idx_snap = k
        # (1) only deletable objects were removed: a chain version may be gone only if it is old and covered by a retained snapshot
        for k, (p, vid, pl) in enumerate(logical):
            hv = has_version(vid)
            gone = not (c.branch(hv) if not isinstance(hv, bool) else hv)
            if gone:
                created = [o['creation'] for o in initial if isinstance(o['name'], SegStr) and len(o['name'].segs) == 4 and o['name'].segs[3][1] is vid]
                old = (created[0] < now - AGE) if created else False
                ok = z_and(old, idx_snap >= k)
                if not c.prove(ok, 'cleanup deleted a version that is still needed (on the chain, and not both old and covered by a retained snapshot)',
                               wit, {'class': 'needed-version-deleted', 'index': k, 'chain_len': len(logical), 'newest_retained_snapshot': idx_snap}):
                    return None
                c.cover('an old covered version was deleted')
        if snaps and idx_snap < 0:
            c.prove(False, 'cleanup deleted every snapshot', wit, {'class': 'all-snapshots-deleted'})
            return None
        # (2) a fresh client can still retrieve every version from EVERY retained snapshot (or from the first version when
        #     there is none) onward: get_snapshot may hand out any of the snapshots in the store
        srv = w.new_server(9)[0]
        retained = []
        for k, (p, vid, pl) in enumerate(logical):
            hs = has_snapshot(vid)
            if (c.branch(hs) if not isinstance(hs, bool) else hs):
                retained.append(k)
        start = (min(retained) + 1) if retained else 0
        if len(retained) >= 2:
            c.cover('two snapshots retained at the end')
        for k in range(start, len(logical)):
            r = w.run(w.f_get_child_version(srv, logical[k][0]))
            ok = r.variant == 0 and r.fields[0].variant == 1
            if not ok:
                c.prove(False, 'after cleanup a version after a retained snapshot (needed to reconstruct the latest state from it) cannot be retrieved', wit,
                        {'class': 'chain-broken', 'index': k, 'retained_snapshot_indices': retained, 'result': repr(r)[:120]})
                return None
            g = r.fields[0]
            if not c.prove(z_and(val_eq(g.fields[0], logical[k][1]), val_eq(g.fields[2], logical[k][2])),
                           'after cleanup the chain serves a different version', wit, {'class': 'chain-differs', 'index': k}):
                return None
        if idx_snap >= 0:
            r = w.run(w.f_get_snapshot(srv))
            if not (r.variant == 0 and r.fields[0].variant == 1):
                c.prove(False, 'the retained snapshot cannot be retrieved', wit, {'class': 'snapshot-lost', 'result': repr(r)[:120]})
                return None
        latest = w.latest()
        if not c.prove(val_eq(latest, logical[-1][1]) if latest is not None else False, 'latest does not name the newest accepted version', wit, {'class': 'latest'}):
            return None
        out = {'chain': n, 'snapshots': len(snaps), 'orphans': len(orph), 'other': other, 'stop_after': stop_after, 'requests': len(sched.trace)}
        if c.want_sample:
            m = c.get_model()
            if m is not None:
                out['scenario'], out['predicted'] = w.record(m)
            out['_encoded'] = sorted(I.encoded)
            out['_modelled'] = sorted(I.modelled)
        return out


def required_covers(tier):
    return ['cleanup deleted something', 'an old covered version was deleted', 'a version was added while cleanup ran']


def configs(tier):
    if tier == 'quick':
        return [dict(name='cleanup-alone', factory=lambda: Harness(2, 1, ['none'], 2, 'qa'),
                     bounds='chain of 1-2 versions, snapshot at any subset, 0-1 orphan (child of latest / of an older version), symbolic object ages; a single cleanup, optionally stopped after 0 or 1 deletions'),
                dict(name='cleanup-vs-1', factory=lambda: Harness(2, 0, ['add_version', 'cleanup'], 0, 'q'),
                     bounds='chain of 1-2 versions, snapshot at any subset, symbolic object ages; cleanup on client A interleaved at every Service request with client B doing add_version / cleanup')]
    return [dict(name='cleanup-vs-1-all', factory=lambda: Harness(2, 1, ['none', 'add_version', 'add_snapshot', 'cleanup'], 2, 't'),
                 bounds='chain of 1-2 versions, all four other-client actions, cleanup stopped after 0/1 deletions', time_limit_s=3300),
            dict(name='cleanup-chain3', factory=lambda: Harness(3, 0, ['add_version', 'cleanup'], 0, 't3'),
                 bounds='chain of 1-3 versions, no orphans', time_limit_s=3300),
            dict(name='cleanup-page1', factory=lambda: Harness(2, 1, ['add_version', 'cleanup'], 0, 'p1', page_size=1),
                 bounds='list page size 1: every page fetch is a scheduling point', time_limit_s=3300)]


ASSUMPTIONS = [
    'interleaving granularity = one Service request (list page included); compare_and_swap atomic (Service contract)',
    'a concurrent add_snapshot names a version at or after the newest snapshot already stored (snapshot uploads follow their version immediately; one delayed past the retention age is outside the bound)',
    'object creation times are arbitrary instants not later than now; SystemTime::now is one symbolic instant >= 360 days after the epoch',
    'ring primitives idealised; version ids fresh, distinct, symbolic order (cleanup sorts and binary-searches them)',
    'replay clock: the compiled cleanup reads the real clock, so the replay moves every time of the scenario by (real now - model now), keeping all ages exact; replayed scenarios are chosen with ages at least one hour away from the 180-day threshold when such a model exists (the symbolic exploration includes the threshold itself)',
    'replay: store content, ages, schedule and stop point are run on the compiled CloudServer (cleanup through the hook) over the gated hook store; the run is repeated until the randomly minted ids have the relative order of the model; confirmed when results, request log and store equal the prediction',
]
EXPLANATION = ('store content (chain length, snapshot positions, orphans) and the other client\'s action forked; object ages, version id order and '
               'payload bytes symbolic; every schedule explored; z3 must refute: a needed chain version deleted, all snapshots deleted, the chain '
               'from the newest retained snapshot (or from the first version) not retrievable by a fresh client, latest wrong')
