"""C11 — a failure inside a server's add-version leaves the backend usable: object-store backend and local on-disk backend.

Real code: taskdb::sync::sync (replicas) driving the real CloudServer over the model object store; a fault
is injected at every Service request made during one sync (error before the request, or request carried
out and then error = reply lost / process stopped), then both replicas go on syncing through fresh
CloudServer handles ("after restart")."""
import z3

from mirsym.explore import PathAbort, Panic
from mirsym.values import Adt, clone_val, PyVec, BoxV, Some, NONE, Bytes
from mirsym.models.core import val_eq, z_and, z_all, z_any, z_not
from .common import get_interp, show, tasks_eq, ref_apply
from .cloudworld import CloudWorld
from .syncworld import SyncWorld, judge_convergence
from .localsrv import LocalSrvWorld, ProcessStop

PROPERTY = 'C11'
REPLAY_RETRIES = 2
LEVEL = 'fault_enumeration'


class Harness:
    def __init__(self, nops, name):
        self.I = get_interp()
        self.nops, self.name = nops, name

    def run_path(self, ctx):
        c, I = ctx, self.I
        cw = CloudWorld(I, ctx, concrete_now=2_000_000_000)
        w = SyncWorld(I, ctx, 2, (1,), ('p',), max_str=64, keep_env=True)
        I.env['new_uuid'] = cw.new_uuid
        I.env['system_now'] = cw.system_now
        I.env['rand_byte'] = lambda I2, n, i: 200 if n == 1 else None       # implicit cleanup off (C10), urgency None
        handles = {}

        def server_for(r, tag):
            srv, h = cw.new_server((r, tag))
            handles[r] = h
            return srv
        srv = [server_for(0, 'a'), server_for(1, 'a')]

        def sync(r):
            res = w.sync(w.dbs[r], srv[r], client=r)
            w.history.append({'sync': r})
            return res
        # common start
        w.do_commit(0, 1, allow_delete=False)
        for r in (0, 1):
            r0 = sync(r)
            if r0.variant != 0:
                raise Panic('initial sync failed: ' + repr(r0)[:300])
        w.do_commit(0, 1 + c.choose(self.nops, 'n0'))
        # --- the interrupted sync
        state = {'n': 0, 'inj': None}

        def fault(I2, kind, name, idx):
            if state['inj'] is not None:
                return None
            state['n'] += 1
            kinds = ['before'] + (['after'] if kind in ('put', 'del', 'compare_and_swap') else [])
            k = c.choose(1 + len(kinds), 'fault?')
            if k == 0:
                return None
            state['inj'] = (kind, repr(name)[:40], kinds[k - 1], state['n'])
            return kinds[k - 1]
        handles[0].fault = fault
        res = sync(0)
        handles[0].fault = None
        inj = state['inj']
        if inj is not None:
            w.history[-1]['fault'] = {'layer': 'service', 'nth': inj[3], 'how': inj[2], 'request': inj[0]}

        def wit(m):
            d = w.witness(m)
            d['fault'] = inj
            d['kind'], d['server'] = 'sync', 'cloud'
            return d
        if inj is None:
            c.cover('fault-free baseline')
            if res.variant != 0:
                c.prove(False, 'sync through the object-store server failed without a fault', wit, {'class': 'sync-err', 'err': repr(res)[:200]})
                return None
        else:
            c.cover('fault:' + inj[0] + ':' + inj[2])
            if res.variant == 0:
                c.cover('fault tolerated by the server')
        # --- after restart: fresh server handles, the other replica makes a change, everybody syncs
        srv = [server_for(0, 'b'), server_for(1, 'b')]
        w.history.append({'new_handles': True})
        w.do_commit(1, 1)
        for r in (1, 0, 1, 0):
            res = sync(r)
            if res.variant != 0:
                c.prove(False, 'a replica could not go on synchronizing after an interrupted add-version', wit,
                        {'class': 'stuck', 'replica': r, 'fault': inj, 'err': repr(res)[:200]})
                return None
        # --- the chain as served to a fresh client, decoded
        fresh = cw.new_server(9)[0]
        parent = 0
        tasks = []
        nver = 0
        for _ in range(12):
            r = cw.run(cw.f_get_child_version(fresh, parent))
            if r.variant != 0:
                c.prove(False, 'the chain cannot be read after the fault', wit, {'class': 'chain-err', 'fault': inj, 'err': repr(r)[:160]})
                return None
            g = r.fields[0]
            if g.variant == 0:
                break
            hs = g.fields[2]
            blob = hs.items[0] if hasattr(hs, 'items') else hs
            js = blob.payload
            for o in js.src.fields[0].items:
                ref_apply(I, tasks, clone_val(o))
            parent = g.fields[0]
            nver += 1
        latest = cw.latest()
        if not c.prove(val_eq(latest, parent) if latest is not None else False, 'latest is not the end of the chain a client can walk', wit,
                       {'class': 'latest-unreachable', 'fault': inj}):
            return None
        for r in (0, 1):
            if w.unsynced_ops(w.dbs[r]):
                c.prove(False, 'unsynced operations remain', wit, {'class': 'unsynced-left', 'fault': inj})
                return None
            if not c.prove(tasks_eq(w.replica_tasks(r), tasks), 'replicas do not converge to the chain after an interrupted add-version', wit,
                           {'class': 'diverged', 'replica': r, 'fault': inj}):
                return None
        out = {'fault': inj, 'versions': nver}
        if c.want_sample:
            m = c.get_model()
            if m is not None:
                out['scenario'] = wit(m)
                out['predicted'] = {'replicas': [w.concrete_tasks(r, m) for r in (0, 1)], 'versions': nver}
            out['_encoded'] = sorted(I.encoded)
            out['_modelled'] = sorted(I.modelled)
        return out



class LocalHarness:
    """the same experiment over the local on-disk server: real sync + real LocalServer over the rusqlite model; one fault at
    every call into the SQL engine made during one sync x {error before the call has an effect, call durable then error,
    call durable then process stop}; then fresh handles on the same directory, another change, 4 more syncs"""

    def __init__(self, nops, name):
        self.I = get_interp(variant='full')
        self.nops, self.name = nops, name

    def run_path(self, ctx):
        c, I = ctx, self.I
        w = SyncWorld(I, ctx, 2, (1,), ('p',), max_str=64)
        lw = LocalSrvWorld(I, ctx)
        srv = [lw.new_server(), lw.new_server()]

        def sync(r, step=None):
            res = w.sync(w.dbs[r], srv[r], client=r)
            w.history.append(step or {'sync': r})
            return res
        w.do_commit(0, 1, allow_delete=False)
        for r in (0, 1):
            r0 = sync(r)
            if r0.variant != 0:
                raise Panic('initial sync failed: ' + repr(r0)[:300])
        w.do_commit(0, 1 + c.choose(self.nops, 'n0'))
        # --- the interrupted sync
        state = {'n': 0, 'inj': None}
        rows0, latest0 = len(lw.version_rows()), lw.latest_value()

        def fault(what, durable):
            if state['inj'] is not None:
                return None
            state['n'] += 1
            kinds = ['before'] + (['after', 'stop'] if durable else [])
            k = c.choose(1 + len(kinds), 'fault?')
            if k == 0:
                return None
            state['inj'] = (what, kinds[k - 1], state['n'])
            return kinds[k - 1]
        lw.fault = fault
        step = {'sync': 0}
        try:
            res = sync(0, step)
        except ProcessStop:
            # the process died: nothing of the sync reached the replica's storage (its transaction was never committed:
            # that code is not run), the database keeps what was committed
            res = None
            w.history.append(step)
        lw.fault = None
        inj = state['inj']
        if inj is not None:
            inserted = len(lw.version_rows()) > rows0
            moved = lw.latest_value() != latest0
            point = 'local:add_version:after-latest' if (inserted and moved) else 'local:add_version:between' if inserted else 'local:add_version:before-insert'
            step['fault'] = {'layer': 'local', 'point': point, 'nth': 1, 'engine_call': inj[0], 'how': inj[1], 'call_index': inj[2]}
            inj = inj + (point,)

        def wit(m):
            d = w.witness(m)
            d['fault'] = inj
            d['kind'], d['server'] = 'sync', 'local'
            return d
        if inj is None:
            c.cover('local: fault-free baseline')
            if res is None or res.variant != 0:
                c.prove(False, 'sync through the local server failed without a fault', wit, {'class': 'sync-err', 'backend': 'local', 'err': repr(res)[:200]})
                return None
        else:
            c.cover('local: fault:' + inj[0] + ':' + inj[1])
            c.cover('local: state:' + inj[3].split(':')[-1])
        # --- after restart: fresh handles on the same directory, the other replica makes a change, everybody syncs
        srv = [lw.new_server(), lw.new_server()]
        w.history.append({'new_handles': True})
        w.do_commit(1, 1)
        for r in (1, 0, 1, 0):
            res = sync(r)
            if res.variant != 0:
                c.prove(False, 'a replica could not go on synchronizing after an interrupted add-version', wit,
                        {'class': 'stuck', 'backend': 'local', 'replica': r, 'state': inj[3] if inj else None, 'err': repr(res)[:200]})
                return None
        # --- the chain as served to a fresh handle, decoded
        fresh = lw.new_server()
        parent = 0
        tasks = []
        nver = 0
        for _ in range(12):
            r = lw.run(lw.f_get_child_version(fresh, parent))
            if r.variant != 0:
                c.prove(False, 'the chain cannot be read after the fault', wit, {'class': 'chain-err', 'backend': 'local', 'err': repr(r)[:160]})
                return None
            g = r.fields[0]
            if g.variant == 0:
                break
            hs = g.fields[2]
            blob = hs.items[0] if hasattr(hs, 'items') else hs
            js = blob.payload
            for o in js.src.fields[0].items:
                ref_apply(I, tasks, clone_val(o))
            parent = g.fields[0]
            nver += 1
        for r in (0, 1):
            if w.unsynced_ops(w.dbs[r]):
                c.prove(False, 'unsynced operations remain', wit, {'class': 'unsynced-left', 'backend': 'local'})
                return None
            if not c.prove(tasks_eq(w.replica_tasks(r), tasks), 'replicas do not converge to the chain after an interrupted add-version', wit,
                           {'class': 'diverged', 'backend': 'local', 'replica': r, 'state': inj[3] if inj else None}):
                return None
        out = {'backend': 'local', 'fault': inj, 'versions': nver}
        if c.want_sample:
            m = c.get_model()
            if m is not None:
                out['scenario'] = wit(m)
                out['predicted'] = {'replicas': [w.concrete_tasks(r, m) for r in (0, 1)], 'versions': nver}
            out['_encoded'] = sorted(I.encoded)
            out['_modelled'] = sorted(I.modelled)
        return out

def replay_scenario(v):
    return v['witness']


def _problems(out):
    """property C11 on the compiled crate: after the interrupted sync everybody can go on synchronizing, the chain can be
    walked to `latest`, and the replicas converge to the chain as served"""
    probs = []
    steps = out.get('steps', [])
    after = False
    for i, st in enumerate(steps):
        if st.get('new_handles'):
            after = True
        elif after and 'err' in st:
            probs.append({'step': i, 'err': st['err']})
    srv = out.get('server', {})
    if srv.get('walk_error'):
        probs.append({'walk_error': srv['walk_error']})
    if srv.get('latest_is_end_of_walk') is False:
        probs.append({'latest_is_end_of_walk': False})
    probs += [p for p in judge_convergence(dict(out, steps=[])) if 'step' not in p]
    if 'panic' in out:
        probs.append({'panic': out['panic']})
    return probs


def replay_judge(scn, out, v):
    p = _problems(out)
    return bool(p), p[:3]


def validate_samples(sample, out):
    p = _problems(out)
    if p:
        return False, p[:3]
    pred = sample['predicted']['replicas']
    real = [r['tasks'] for r in out.get('replicas', [])]
    if real != pred:
        return False, {'predicted': pred, 'real': real}
    if len(out.get('server', {}).get('versions', [])) != sample['predicted']['versions']:
        return False, {'predicted_versions': sample['predicted']['versions'], 'real_versions': len(out['server']['versions'])}
    return True, None


def required_covers(tier):
    return ['fault-free baseline', 'fault:put:before', 'fault:put:after', 'fault:compare_and_swap:before', 'fault:compare_and_swap:after', 'fault:get:before',
            'local: fault-free baseline', 'local: fault:commit:before', 'local: fault:commit:after', 'local: fault:commit:stop', 'local: fault:execute:before',
            'local: fault:query:before', 'local: fault:begin:before', 'local: state:before-insert', 'local: state:after-latest']


def configs(tier):
    if tier == 'quick':
        return [dict(name='1fault', factory=lambda: Harness(1, 'q'),
                     bounds='2 replicas syncing through the real CloudServer; one fault at every Service request of one sync (which adds 1 version of 1 op) x {error before, done then error}; afterwards fresh handles, one more change on the other replica, 4 more syncs'),
                dict(name='local-1fault', factory=lambda: LocalHarness(1, 'lq'), mir='full',
                     bounds='local on-disk server: 2 replicas syncing through the real LocalServer; one fault at every call into the SQL engine (begin / query / execute / commit) made during one sync (which adds 1 version of 1 op) x {error before the call has an effect; for commits: durable then error, durable then process stop}; afterwards fresh handles on the same directory, one more change on the other replica, 4 more syncs')]
    return [dict(name='1fault-2ops', factory=lambda: Harness(2, 't'), bounds='as quick, interrupted sync carries 1-2 ops', time_limit_s=3300),
            dict(name='local-1fault-2ops', factory=lambda: LocalHarness(2, 'lt'), mir='full', bounds='local on-disk server, as quick, interrupted sync carries 1-2 ops', time_limit_s=3300)]


ASSUMPTIONS = [
    'claimed for the object-store backend and the local on-disk backend; the git backend (sub-processes) is outside',
    'local backend: the Rust code of LocalServer/StoredUuid is executed over a model of the SQL engine behind rusqlite (mirsym/models/sqlite.py: tables in insertion order, PRIMARY KEY uniqueness, a transaction is a private copy that becomes the committed state atomically on commit and is discarded on drop / process stop); fault points are the calls into the engine; the replay arms a cfg-guarded failpoint of the compiled LocalServer that leaves the real SQLite file in the same committed state (before the insert / between insert and latest-pointer update / after both) and runs the same history through ServerConfig::Local',
    'fault kinds per Service request: error before the request takes effect; request carried out and then an error (covers a lost reply and a process stop right after the request); "restart" = fresh CloudServer values over the same store',
    'implicit cleanup disabled here (C10), Service contract and ring primitives modelled, JSON as injective codec, in-memory replica storage',
    'replay: commits, syncs, the fault (n-th Service request of the interrupted sync, before/after) and the restart are run on the compiled Replica + CloudServer over the hook in-memory object store, and judged by the same rule (later syncs succeed, chain walkable to latest, replicas equal the chain as served)',
]
EXPLANATION = ('the fault point is forked at every Service request the interrupted sync makes; afterwards z3 must refute: a later sync '
               'failing, latest not reachable by walking the chain, a replica differing from the replay of the chain as served')
NONTRIVIAL_RULE = 'a case = (fault request index, fault kind, operation choices, solver-decided branches); counted as completed paths'
