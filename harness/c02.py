"""C02 — convergence survives racing syncs and rejected versions.

The racing replicas' real `sync` coroutines are interleaved at every server request by a scheduler
whose choices are explored exhaustively; the operations they carry are symbolic as in C01."""
import z3

from mirsym.explore import PathAbort, Panic
from mirsym.values import clone_val, BoxV, LV, Ref
from .common import get_interp, tasks_eq, show, Scheduler, ModelServer
from .syncworld import SyncWorld, judge_convergence

PROPERTY = 'C02'
LEVEL = 'model_checking'


class Harness:
    def __init__(self, props, n1max, n2max, earlier, name, exact=False, kinds=None):
        self.I = get_interp()
        self.exact, self.kinds = exact, kinds
        self.props, self.n1max, self.n2max, self.earlier, self.name = props, n1max, n2max, earlier, name

    def run_path(self, ctx):
        c = ctx
        w = SyncWorld(self.I, ctx, 3, (1,), self.props, **({'max_str': 64} if self.kinds else {}))
        # common synced start: the task exists everywhere
        w.do_commit(0, 1, allow_delete=False)          # only 'create' is possible on an empty replica
        for r in (0, 1, 2):
            w.do_sync(r)
        # an earlier version the racers have not seen
        n0 = c.choose(self.earlier + 1, 'earlier')
        if n0:
            w.do_commit(0, n0)
            w.do_sync(0)
        n1 = self.n1max if self.exact else 1 + c.choose(self.n1max, 'n1')
        n2 = self.n2max if self.exact else 1 + c.choose(self.n2max, 'n2')
        w.op_kinds = self.kinds
        w.do_commit(1, n1)
        w.do_commit(2, n2)
        # serial reference world: same replicas, same server content, syncs one after the other
        pre_dbs = [clone_val(db) for db in w.dbs]
        pre_chain = list(w.server.chain)
        nchain0 = len(w.server.chain)

        # --- the race
        sched = Scheduler(self.I, ctx, clients=[1, 2])
        cells = [[BoxV(w.server)], [BoxV(w.server)]]
        futs = [w.sync_future(w.dbs[1], cells[0]), w.sync_future(w.dbs[2], cells[1])]
        w.server.concurrent = True
        nreq0 = len(w.server.requests)
        try:
            res = sched.run(futs, 'race')
        except Panic:
            w.history.append({'race': [1, 2], 'schedule': [1 + t for t, _ in sched.trace]})
            raise
        w.history.append({'race': [1, 2], 'schedule': [1 + t for t, _ in sched.trace]})
        w.server.concurrent = False
        for i, r in enumerate(res):
            if r.variant != 0:
                c.prove(False, 'racing sync returned Err', w.witness,
                        {'class': 'race-sync-err', 'err': repr(r.fields[0])[:160]})
                return None
        rejected = any(q[0] == 'add_version' for q in w.server.requests[nreq0:]) and \
            sum(1 for q in w.server.requests[nreq0:] if q[0] == 'add_version') > (len(w.server.chain) - nchain0)
        if rejected:
            c.cover('rejected version then successful retry')
        for r in (1, 2):
            if not w.check_invariant(r, 'replica invariant after racing sync'):
                return None
        # who was accepted first?
        order = []
        for parent, vid, payload in w.server.chain[nchain0:]:
            owner = self.owner_of(w, vid)
            if owner not in order:
                order.append(owner)
        for r in (1, 2):
            if r not in order:
                order.append(r)
        contiguous = self.contiguous(w, nchain0)
        # --- everybody syncs until quiet
        for rnd in range(2):
            for r in range(3):
                w.do_sync(r)
                if not w.check_invariant(r, 'replica invariant after sync'):
                    return None
        ref = w.chain_state()
        for r in range(3):
            if w.unsynced_ops(w.dbs[r]):
                c.prove(False, 'unsynced operations remain', w.witness, {'class': 'unsynced-left'})
                return None
            if not c.prove(tasks_eq(w.replica_tasks(r), ref), 'replica differs from chain replay after racing syncs',
                           w.witness, {'class': 'diverged', 'replica': r}):
                return None
        # --- same syncs one after the other, in acceptance order: must give the same tasks
        if contiguous:
            final_racy = w.replica_tasks(0)
            serial = self.serial_run(w, pre_dbs, pre_chain, order)
            if not c.prove(tasks_eq(final_racy, serial), 'racing syncs ended in a state no sequential run produces',
                           w.witness, {'class': 'not-serializable', 'order': order}):
                return None
            c.cover('compared with sequential run')
        if n0:
            c.cover('earlier unseen version')
        return w.sample({'schedule': [t for t, _ in sched.trace], 'order': order})

    def owner_of(self, w, vid):
        return w.version_owner.get(vid)

    def contiguous(self, w, n0):
        owners = [w.version_owner.get(v) for _, v, _ in w.server.chain[n0:]]
        seen, last = set(), None
        for o in owners:
            if o != last:
                if o in seen:
                    return False
                seen.add(o)
                last = o
        return True

    def serial_run(self, w, pre_dbs, pre_chain, order):
        srv = ModelServer(w)
        srv.chain = list(pre_chain)
        dbs = [clone_val(d) for d in pre_dbs]
        for r in order:
            res = w.sync(dbs[r], srv, client=r)
            if res.variant != 0:
                raise Panic('sequential reference sync failed')
        for rnd in range(2):
            for r in range(3):
                res = w.sync(dbs[r], srv)
                if res.variant != 0:
                    raise Panic('sequential reference sync failed')
        return [[k, v] for k, v in w.tasks_of(dbs[0]).items]


def replay_scenario(v):
    scn = dict(v['witness'], kind='sync')
    n = scn['replicas']
    scn['steps'] = list(scn['steps']) + [{'sync': r} for _ in range(2) for r in range(n)]
    if v.get('info', {}).get('class') == 'not-serializable':
        return [scn, replay_twin(scn, v)]
    return scn


def replay_judge(scn, out, v):
    twin = None
    if isinstance(out, list):
        out, twin = out
    probs = judge_convergence(out)
    for st in out.get('steps', []):
        if 'race' in st:
            for k, r in st['race'].items():
                if 'err' in r:
                    probs.append({'race_sync_err': r['err'], 'replica': k})
    if not probs and twin is not None:
        a = [r['tasks'] for r in out['replicas']]
        b = [r['tasks'] for r in twin['replicas']]
        if a != b:
            probs.append({'racy_final': a[0], 'sequential_final': b[0]})
    return bool(probs), probs[:3]


def replay_twin(scn, v):
    """sequential twin of a racing scenario (same syncs, one after the other in acceptance order)"""
    order = v['info']['order']
    steps = []
    for st in scn['steps']:
        if 'race' in st:
            steps.extend({'sync': r} for r in order)
        else:
            steps.append(st)
    return dict(scn, steps=steps)


def validate_samples(sample, out):
    pred = sample['predicted']
    real = [r['tasks'] for r in out.get('replicas', [])]
    if real != pred['replicas']:
        return False, {'predicted': pred['replicas'], 'real': real}
    return True, None


def required_covers(tier):
    return ['rejected version then successful retry', 'compared with sequential run', 'earlier unseen version']


def configs(tier):
    if tier == 'quick':
        return [dict(name='race2+earlier-P1', factory=lambda: Harness(('p',), 2, 1, 1, 'q'),
                     bounds='3 replicas (1 synced earlier, 2 racing), racer A carries 1-2 ops, racer B 1 op, 0-1 earlier unseen op, 1 task, 1 property; every interleaving of the racers\' server requests (sleep sets over commuting reads)'),
                dict(name='race2-P2-2x2-set', factory=lambda: Harness(('p', 'q'), 2, 2, 0, 'q22', exact=True, kinds=('set',)),
                     bounds='2 racing replicas carrying exactly 2 property updates each on 1 task with 2 properties (versions mixing conflicting and unrelated operations), values of at most 64 bytes so that each sync sends one version; every interleaving')]
    return [dict(name='race2+earlier-P1-sym', factory=lambda: Harness(('p',), 2, 2, 1, 't1'),
                 bounds='3 replicas, racers carry 1-2 ops each, 0-1 earlier unseen op, 1 task, 1 property; every interleaving',
                 time_limit_s=3300),
            dict(name='race2-P2-2x2', factory=lambda: Harness(('p', 'q'), 2, 2, 0, 't22'),
                 bounds='2 racing replicas carrying 1-2 ops each (all kinds), 1 task, 2 properties; every interleaving', time_limit_s=3300),
            dict(name='race2+earlier-P2', factory=lambda: Harness(('p', 'q'), 2, 1, 1, 't2'),
                 bounds='3 replicas, racer A 1-2 ops, racer B 1 op, 0-1 earlier unseen op, 1 task, 2 properties; every interleaving',
                 time_limit_s=3300)]


ASSUMPTIONS = [
    'interleaving granularity = one Server trait request (get_snapshot/get_child_version/add_version/add_snapshot); local storage calls of different replicas commute (separate storages)',
    'server = protocol-correct reference model; storage = InMemoryStorage executed from MIR',
    'serde_json injective codec with documented compact length; std containers as association lists',
]
EXPLANATION = ('two real sync coroutines are polled by a scheduler that serves one pending server request at a time; the '
               'choice of whose request is served is forked exhaustively; operations are symbolic as in C01; oracles: every '
               'sync Ok, replica invariant, convergence to the chain replay, and equality with the sequential run in '
               'acceptance order (detects re-sent losers and re-sent accepted batches)')
