"""Local on-disk server world: the real `LocalServer` (MIR of src/server/local/mod.rs, `StoredUuid`'s ToSql/FromSql)
over the rusqlite model of mirsym/models/sqlite.py.  Several handles on one database directory; every call into
the SQL engine is a fault point."""
import json as _json

from mirsym.explore import PathAbort, Panic
from mirsym.parser import Unsupported
from mirsym.values import Adt, PyVec, Bytes, clone_val, deref, mkref, is_sym
from mirsym.models import sqlite
from .common import show
from .cloudworld import canon

SERVER_DIR = '/srv'
MIR_VARIANT = 'full'


ProcessStop = sqlite.ProcessStop


class LocalSrvWorld:
    def __init__(self, I, ctx):
        self.I, self.ctx = I, ctx
        I.drop_hooks = True
        self.sql = sqlite.World()
        I.env['sqlite_world'] = self.sql
        self.fault = None                 # hook(what, durable) -> None | 'before' | 'after' | 'stop'
        I.env['sql_fault'] = self._fault
        self.ncalls = 0

    def install(self):
        """(re)install the hooks after another world reset the interpreter's environment"""
        self.I.drop_hooks = True
        self.I.env['sqlite_world'] = self.sql
        self.I.env['sql_fault'] = self._fault

    def _fault(self, I, what, durable):
        self.ncalls += 1
        if self.fault is None:
            return None
        k = self.fault(what, durable)
        if k == 'stop':
            # carried out and durable, then the process stops: signalled after the model applied the effect
            return 'stop'
        return k

    def db(self):
        for d in self.sql.dbs.values():
            return d
        return None

    def new_server(self):
        r = self.I.call('LocalServer::new', [SERVER_DIR])
        if r.variant != 0:
            raise Panic('LocalServer::new failed: ' + repr(r)[:200])
        return r.fields[0]

    def f_add_version(self, srv, parent, payload):
        return self.I.call('<LocalServer as Server>::add_version', [mkref(srv), parent, payload])

    def f_get_child_version(self, srv, parent):
        return self.I.call('<LocalServer as Server>::get_child_version', [mkref(srv), parent])

    def f_get_snapshot(self, srv):
        return self.I.call('<LocalServer as Server>::get_snapshot', [mkref(srv)])

    def run(self, fut):
        return self.I.block_on(fut)

    # --- committed database content
    def version_rows(self):
        d = self.db()
        if d is None or 'versions' not in d.tables:
            return []
        return d.tables['versions']['rows']

    def latest_value(self):
        d = self.db()
        if d is None or 'data' not in d.tables:
            return None
        for r in d.tables['data']['rows']:
            if r['key'] == 'latest_version_id':
                return r['value']
        return None


def hex32(n):
    return '%032x' % n


def predicted_results(results, model, with_urgency=False):
    """the interpreter's results of a call sequence in the replay binary's output format (ids as 32 hex digits)"""
    def ev(t):
        v = show(t, model)
        return v
    out = []
    for kind, r in results:
        if kind == 'add_version':
            if r.variant != 0:
                out.append({'err': '*'})
                continue
            res = r.fields[0].fields[0]
            d = {'accepted': hex32(ev(res.fields[0]))} if res.variant == 0 else {'expected': hex32(ev(res.fields[0]))}
            if with_urgency and res.variant == 0:
                d['urgency'] = r.fields[0].fields[1].variant
            out.append(d)
        elif r.variant != 0:
            out.append({'err': '*'})
        elif kind == 'add_snapshot':
            out.append('stored')
        elif kind == 'get_child_version':
            g = r.fields[0]
            if g.variant == 0:
                out.append('none')
            else:
                out.append({'version': {'id': hex32(ev(g.fields[0])), 'parent': hex32(ev(g.fields[1])), 'bytes': [ev(b) for b in deref(g.fields[2]).items]}})
        elif kind == 'get_snapshot':
            o = r.fields[0]
            if o.variant == 0:
                out.append('none')
            else:
                ver, pl = o.fields[0].fields
                out.append({'snapshot': {'version': hex32(ev(ver)), 'bytes': [ev(b) for b in deref(pl).items]}})
    return out


def compare_calls(pred, out):
    if not isinstance(out, dict) or 'results' not in out:
        return False, {'replay_output': str(out)[:400]}
    def norm(rs):
        return [{'err': '*'} if isinstance(r, dict) and 'err' in r else r for r in rs]
    a = canon({'results': norm(pred['results']), 'walk': pred['walk']})
    b = canon({'results': norm(out['results']), 'walk': out['walk']})
    if a == b:
        return True, None
    return False, {'predicted': _json.loads(a), 'real': _json.loads(b)}
