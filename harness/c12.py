"""C12 — snapshots reproduce exactly the state of their version.

Real code executed: sync (urgency gate, snapshot call site), make_snapshot, SnapshotTasks' hand-written
Serialize impl (against the model serializer), apply_snapshot, StorageTxn::is_empty."""
import z3

from mirsym.explore import PathAbort, Panic
from mirsym.parser import Unsupported
from mirsym.values import Adt, PyVec, PyMap, Tuple, Ok, Err, Opaque, clone_val
from mirsym.models.core import val_eq
from .common import get_interp, tasks_eq, show, json_decode_lenient
from .syncworld import SyncWorld, judge_convergence

PROPERTY = 'C12'
LEVEL = 'model_checking'


def snapshot_doc_tasks(doc):
    """documented snapshot form: a JSON object mapping task uuids to objects of string properties"""
    if doc[0] != 'obj':
        return None
    out = []
    for key, val in doc[1]:
        if not (isinstance(key, tuple) and key[0] == 'uuidkey') or val[0] != 'obj':
            return None
        tm = PyMap([])
        for k, v in val[1]:
            if isinstance(k, tuple) or v[0] != 'str':
                return None
            tm.items.append([k, v[1]])
        out.append([key[1], tm])
    return out


def decode_strict_snapshot(I, js, ty):
    """serde_json::from_reader for SnapshotTasks: rebuilt from the *document* the real Serialize impl emitted
    (not from the value that was serialized), so a snapshot that does not have the documented form is rejected"""
    if 'SnapshotTasks' in ty:
        tasks = snapshot_doc_tasks(js.doc)
        if tasks is None:
            return Err(Opaque('serde_json::Error(not a snapshot document)'))
        return Ok(Adt('SnapshotTasks', 0, [PyVec([Tuple(u, clone_val(tm)) for u, tm in tasks])]))
    return json_decode_lenient(I, js, ty)


class Harness:
    def __init__(self, props, nmax, later_max, name):
        self.I = get_interp()
        self.props, self.nmax, self.later_max, self.name = props, nmax, later_max, name

    def run_path(self, ctx):
        c, I = ctx, self.I
        w = SyncWorld(I, ctx, 4, (1, 2), self.props)
        I.env['json_decode'] = decode_strict_snapshot
        urg_log = []

        def urgency(I2):
            u = c.choose(3, 'urgency')
            urg_log.append((len(w.server.chain), u))      # chain length after accept = index+1
            return u
        w.server.urgency = urgency
        avoid = bool(c.choose(2, 'avoid_snapshots'))
        # optionally another replica's version is on the server first: the snapshotting sync then pulls before it pushes
        if c.choose(2, 'foreign-version-first'):
            w.server.urgency = None
            w.do_commit(3, 1)
            w.do_sync(3)
            w.history[-1]['urgency'] = [0]
            w.server.urgency = urgency
            c.cover('snapshot sync pulls a foreign version first')
        # history before the snapshot point
        n = 1 + c.choose(self.nmax, 'n-before')
        w.do_commit(0, n)
        nsnap0 = len(w.server.snapshots_received)
        w.do_sync(0, avoid_snapshots=avoid)
        w.history[-1]['avoid_snapshots'] = avoid
        w.history[-1]['urgency'] = [u for _, u in urg_log]
        added = w.history[-1]['versions_added']
        if added >= 2:
            c.cover('sync spanning several versions')
        # --- gate: a snapshot only when the stated urgency meets the threshold
        thr = 2 if avoid else 1
        snaps = w.server.snapshots_received[nsnap0:]
        for vid, payload, chain_len in snaps:
            urg = [u for (cl, u) in urg_log if w.server.chain[cl - 1][1] == vid]
            ok = bool(urg) and urg[0] >= thr
            if not c.prove(ok, 'snapshot produced although the urgency was below the threshold', w.witness,
                           {'class': 'gate', 'urgency': urg, 'avoid': avoid}):
                return None
        # the last accepted version of a sync: snapshot exactly when urgent enough
        if added:
            last_vid = w.server.chain[-1][1]
            last_urg = urg_log[-1][1]
            have = any(v == last_vid for v, _, _ in snaps)
            if not c.prove(have == (last_urg >= thr), 'urgent snapshot request not honoured (or honoured below threshold)',
                           w.witness, {'class': 'gate-last', 'urgency': last_urg, 'avoid': avoid}):
                return None
        # --- content: snapshot == replay of the chain up to its version
        for vid, payload, chain_len in snaps:
            c.cover('snapshot uploaded')
            js = payload.payload
            tasks = snapshot_doc_tasks(js.doc)
            if tasks is None:
                c.prove(False, 'snapshot is not a JSON object of uuid -> string map', w.witness, {'class': 'format'})
                return None
            ref = w.chain_state(vid)
            if not c.prove(tasks_eq(tasks, ref), 'snapshot content differs from the replay of the chain up to its version',
                           w.witness, {'class': 'content', 'versions_in_sync': added}):
                return None
        w.server.urgency = None
        # --- later versions
        m = c.choose(self.later_max + 1, 'n-after')
        if m:
            w.do_commit(0, m)
            w.do_sync(0)
        # --- a new, empty replica
        w.do_sync(1)
        ref = w.chain_state()
        if not c.prove(tasks_eq(w.replica_tasks(1), ref), 'fresh replica (snapshot + later versions) differs from full chain replay',
                       w.witness, {'class': 'fresh-replica'}):
            return None
        if w.server.snapshot is not None:
            c.cover('fresh replica started from a snapshot')
            base = w.base_version_of(w.dbs[1])
            if not c.prove(val_eq(base, w.server.latest()), 'fresh replica base version is not the latest', w.witness,
                           {'class': 'fresh-base'}):
                return None
        # --- a replica that already holds data is never overwritten by a snapshot
        w.force_op = ('create', 2, None)
        w.do_commit(2, 1, allow_delete=False)       # a local task (create)
        local_before = [[k, clone_val(v)] for k, v in w.tasks_of(w.dbs[2]).items]
        w.do_sync(2)
        ref = w.chain_state()
        if not c.prove(tasks_eq(w.replica_tasks(2), ref), 'replica with local data diverged after syncing against a server with a snapshot',
                       w.witness, {'class': 'nonempty-replica'}):
            return None
        for r in (0, 1, 3):
            w.do_sync(r)
        ref = w.chain_state()
        for r in range(4):
            if not c.prove(tasks_eq(w.replica_tasks(r), ref), 'replicas differ', w.witness, {'class': 'diverged'}):
                return None
        out = w.sample({'snapshots': len(w.server.snapshots_received), 'avoid': avoid})
        if 'scenario' in out:
            # the replay's reference server needs the urgency it is to state for every accepted version
            urg = []
            for st in out['scenario']['steps']:
                urg.extend(st.get('urgency', []))
            out['scenario'].update(urgency=urg, want_snapshots=True)
        return out


def replay_scenario(v):
    wit = v['witness']
    urg = []
    for s in wit['steps']:
        urg.extend(s.get('urgency', []))
    scn = dict(wit, kind='sync', urgency=urg, want_snapshots=True)
    return scn


def judge_snapshots(out):
    probs = []
    for s in out.get('server', {}).get('snapshots', []):
        if s.get('tasks') != s.get('chain_state_at_version'):
            probs.append({'snapshot_version': s.get('version'), 'snapshot': s.get('tasks'), 'chain_replay': s.get('chain_state_at_version')})
    return probs


def replay_judge(scn, out, v):
    probs = judge_snapshots(out)
    cls = (v.get('info') or {}).get('class')
    if cls in ('gate', 'gate-last'):
        # snapshots made per sync step on the real build vs urgency script
        probs.append({'note': 'urgency gate violated in the solver model', 'snapshots_on_real_code': out['server'].get('snapshots')})
        return True, probs[:3]
    if cls in ('fresh-replica', 'nonempty-replica', 'diverged', 'fresh-base'):
        reps = [r['tasks'] for r in out['replicas']]
        cs = out['server']['chain_state']
        idx = {'fresh-replica': [1], 'nonempty-replica': [2]}.get(cls, range(len(reps)))
        for i in idx:
            if reps[i] != cs and not out['replicas'][i].get('unsynced'):
                probs.append({'replica': i, 'tasks': reps[i], 'chain_state': cs})
    return bool(probs), probs[:3]


def validate_samples(sample, out):
    pred = sample['predicted']
    real = [r['tasks'] for r in out.get('replicas', [])]
    if real != pred['replicas']:
        return False, {'predicted': pred['replicas'], 'real': real}
    if len(out['server']['snapshots']) != sample.get('snapshots'):
        return False, {'predicted_snapshots': sample.get('snapshots'), 'real': out['server']['snapshots']}
    p = judge_snapshots(out)
    if p:
        return False, p
    return True, None


def required_covers(tier):
    return ['snapshot uploaded', 'fresh replica started from a snapshot', 'sync spanning several versions', 'snapshot sync pulls a foreign version first']


def configs(tier):
    if tier == 'quick':
        return [dict(name='snap', factory=lambda: Harness(('p',), 2, 1, 'q'),
                     bounds='1-2 ops before the snapshot point (several versions possible), 0-1 ops after, 2 task ids, 1 property; urgency None/Low/High per accepted version x avoid_snapshots; optionally a version of another replica is on the server first, so that the snapshotting sync pulls before it pushes; then a fresh replica and a replica with local data')]
    return [dict(name='snap-P2', factory=lambda: Harness(('p', 'q'), 3, 2, 't'),
                 bounds='1-3 ops before, 0-2 after, 2 task ids, 2 properties', time_limit_s=3300)]


ASSUMPTIONS = [
    'zlib (flate2) and serde_json byte encoding are lossless codecs (modelled); snapshot content is compared at the level of the JSON document emitted by the crate\'s own Serialize impl for SnapshotTasks',
    'task contents are abstract string tokens: arbitrary-Unicode escaping and thousands of tasks are outside the bound',
    'reference server keeps the latest snapshot and all versions; urgency per accepted version is a free choice',
]
EXPLANATION = ('urgency per accepted version, avoid_snapshots, operation kinds are forked; value identities, timestamps and string '
               'lengths (hence how many versions one sync spans) are z3 terms; obligations: gate (only when urgent enough), '
               'content == chain replay up to the snapshot version, fresh replica == full replay, non-empty replica not replaced')
