"""One replica (real Replica / TaskDb / InMemoryStorage from MIR) with a symbolic synchronized pre-state;
used by C05, C07, C15, C16."""
import z3

from mirsym.explore import PathAbort, Panic
from mirsym.interp import NOT_HANDLED
from mirsym.parser import Unsupported
from mirsym.values import (Adt, LV, Ref, BoxV, PyVec, PyMap, TokStr, NumStr, STRLEN, Some, NONE, Ok, Err, Tuple, UNIT,
                           clone_val, deref, mkref, is_sym)
from mirsym.models.core import val_eq, z_and, z_or, z_not, z_all, z_any, Ready
from .common import World, dt, ref_apply, tasks_eq, show


class LocalWorld(World):
    def __init__(self, I, ctx, uuids=(1, 2), props=('p',)):
        super().__init__(I, ctx)
        self.uuids, self.props = list(uuids), list(props)
        self.rep = I.call('Replica::new', [self.new_storage()])
        self.db = self.rep.fields[0]
        self.nval = 0
        self.steps = []          # replay script
        self.setup = {}
        ctx.panic_witness = self.witness

    # -- symbolic leaves
    allow_empty = True       # may a generated value be the empty string? (tags and dependencies are stored as "")

    def fresh_value(self, base='val'):
        t = self.ctx.fresh_int(base)
        tok = z3.And(t >= 1, t <= 1000, STRLEN(t) >= 8, STRLEN(t) <= 64)
        if self.allow_empty:
            from mirsym.models.strings import intern_tok
            tok = z3.Or(tok, z3.And(t == intern_tok(''), STRLEN(t) == 0))
        self.ctx.assume(tok)
        return TokStr(t)

    def fresh_ts(self):
        return self.ctx.fresh_int('ts', 0, 4_000_000_000)

    # -- state access (the storage object is replaced on commit, so always go through self.db)
    def tasks(self):
        return self.tasks_of(self.db)

    def task_list(self):
        return [[k, v] for k, v in self.tasks().items]

    def ops_list(self):
        return [(t.fields[0], t.fields[1]) for t in self.operations_of(self.db).items]

    def unsynced(self):
        return self.unsynced_ops(self.db)

    def working_set(self):
        return list(self.working_set_of(self.db).items)

    # -- symbolic synchronized pre-state, written straight into the stored data
    def symbolic_prestate(self, statuses=None):
        c = self.ctx
        tasks = self.tasks()
        for u in self.uuids:
            if c.choose(2, 'task-present'):
                tm = PyMap([])
                for p in self.props:
                    if c.choose(2, 'prop-present'):
                        tm.items.append([p, self.fresh_value('pre')])
                tasks.items.append([u, tm])
        self.setup = {'tasks': [[u, clone_val(tm)] for u, tm in tasks.items]}
        return [[u, clone_val(tm)] for u, tm in tasks.items]

    def gen_any_op(self, allow_undo=True):
        """an arbitrary Operation, valid or not, over the uuid/property pools"""
        I, c = self.I, self.ctx
        kinds = []
        for u in self.uuids:
            kinds.append(('create', u, None))
            kinds.append(('delete', u, None))
            for p in self.props:
                kinds.append(('set', u, p))
                kinds.append(('unset', u, p))
        if allow_undo:
            kinds.append(('undopoint', None, None))
        kind, u, p = kinds[c.choose(len(kinds), 'op')]
        if kind == 'create':
            return I.mk_enum('Operation', 'Create', [u]), {'op': 'create', 'uuid': u}
        if kind == 'delete':
            return I.mk_enum('Operation', 'Delete', [u, PyMap([])]), {'op': 'delete', 'uuid': u, 'old_task': {}}
        if kind == 'undopoint':
            return I.mk_enum('Operation', 'UndoPoint', []), {'op': 'undopoint'}
        ts = self.fresh_ts()
        if kind == 'set':
            v = self.fresh_value()
            return (I.mk_enum('Operation', 'Update', [u, p, NONE(), Some(v), dt(ts)]),
                    {'op': 'update', 'uuid': u, 'prop': p, 'value': v, 'old_value': None, 'ts': ts})
        return (I.mk_enum('Operation', 'Update', [u, p, NONE(), NONE(), dt(ts)]),
                {'op': 'update', 'uuid': u, 'prop': p, 'value': None, 'old_value': None, 'ts': ts})

    def commit_replica(self, ops):
        fut = self.I.call('Replica::commit_operations', [mkref(self.rep), PyVec(list(ops))])
        return self.I.block_on(fut)

    # -- storage fault injection (same numbering as the replay's FaultyStorage)
    def with_storage_fault(self, thunk, label='fault?'):
        """run thunk() forking a fault at every storage call; returns (result, injected or None)"""
        c = self.ctx
        state = {'sn': 0, 'inj': None}

        def hook(I2, sp, path, args):
            if state['inj'] is not None:
                return NOT_HANDLED
            if not (sp.startswith('<dyn StorageTxn') or sp.startswith('<Self as StorageTxn>') or sp == '<S as Storage>::txn'):
                return NOT_HANDLED
            meth = sp.split('::')[-1]
            if meth == 'is_empty':
                return NOT_HANDLED
            state['sn'] += 1
            if not c.choose(2, label):
                return NOT_HANDLED
            state['inj'] = {'layer': 'storage', 'call': meth, 'kind': 'err_before', 'index': state['sn']}
            return Ready(Err(I2.mk_enum('Error', 'Database', ['injected storage fault'])))
        self.I.env['call_hook'] = hook
        try:
            res = thunk()
        finally:
            self.I.env['call_hook'] = None
        return res, state['inj']

    # -- witness helpers
    def ev(self, t, model):
        if t is None:
            return None
        if isinstance(t, TokStr):
            ln = model.eval(STRLEN(t.id), model_completion=True).as_long()
            if ln == 0:
                return ''
            return {'id': model.eval(t.id, model_completion=True).as_long(), 'len': ln}
        if isinstance(t, NumStr):
            return str(model.eval(t.v, model_completion=True).as_long()) if is_sym(t.v) else str(t.v)
        if is_sym(t):
            r = model.eval(t, model_completion=True)
            return r.as_long() if z3.is_int_value(r) else str(r)
        if isinstance(t, dict):
            return {k: self.ev(v, model) for k, v in t.items()}
        if isinstance(t, (list, tuple)):
            return [self.ev(v, model) for v in t]
        return t

    def setup_steps(self, model):
        """replay steps that establish the synchronized pre-state: commit creates/updates, then sync"""
        ops = []
        for u, tm in self.setup.get('tasks', []):
            ops.append({'op': 'create', 'uuid': u})
            for k, v in tm.items:
                ops.append({'op': 'update', 'uuid': u, 'prop': k, 'value': self.ev(v, model), 'ts': 0})
        if not ops:
            return []
        return [{'commit': 0, 'ops': ops}, {'sync': 0}]

    def witness(self, model):
        return {'kind': 'sync', 'replicas': 1, 'steps': self.setup_steps(model) + [self.ev(s, model) for s in self.steps]}

    def conc_tasks(self, tasks, model):
        return {str(u): {k: self.ev(v, model) for k, v in tm.items} for u, tm in tasks}
