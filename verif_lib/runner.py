"""Runs one property check: regenerate the encoding from /repo, explore, replay, classify, write evidence."""
import importlib
import json
import os
import subprocess
import sys
import time
import traceback

from . import build

VERIF = build.VERIF
EVIDENCE = os.path.join(build.OUT, 'evidence')
CEX = os.path.join(build.OUT, 'counterexamples')
KNOWN = os.path.join(VERIF, 'known_findings.json')


def load_known(prop):
    if not os.path.exists(KNOWN):
        return []
    data = json.load(open(KNOWN))
    return [f for f in data.get('findings', []) if f.get('property') == prop and f.get('status') == 'known']


def matches(finding, info):
    m = finding.get('match', {})
    if not isinstance(info, dict):
        return False
    for k, v in m.items():
        if info.get(k) != v:
            return False
    return True


def _replay_env():
    env = dict(os.environ)
    # scratch SQLite databases of the replay live in memory-backed storage when available (removed by the binary)
    if os.path.isdir('/dev/shm') and os.access('/dev/shm', os.W_OK):
        env['TMPDIR'] = '/dev/shm'
    return env


def run_replay(binary, scenarios, timeout=int(os.environ.get('VERIF_REPLAY_TIMEOUT', '3600'))):
    """run a batch of scenarios through the replay binary; returns list of outputs (large batches in parallel)"""
    n = len(scenarios)
    if n <= 64:
        p = subprocess.run([binary], input=json.dumps(scenarios), capture_output=True, text=True, timeout=timeout, env=_replay_env())
        if p.returncode != 0:
            raise RuntimeError('replay binary failed: ' + p.stderr[-2000:])
        return json.loads(p.stdout)
    k = min(os.cpu_count() or 4, 16, (n + 63) // 64)
    size = (n + k - 1) // k
    chunks = [scenarios[i:i + size] for i in range(0, n, size)]
    procs = []
    for ch in chunks:
        p = subprocess.Popen([binary], stdin=subprocess.PIPE, stdout=subprocess.PIPE, stderr=subprocess.PIPE, text=True, env=_replay_env())
        procs.append((p, ch))
    import threading
    outs = [None] * len(procs)

    def feed(i, p, ch):
        o, e = p.communicate(json.dumps(ch), timeout=timeout)
        if p.returncode != 0:
            outs[i] = RuntimeError('replay binary failed: ' + e[-2000:])
        else:
            outs[i] = json.loads(o)
    ths = [threading.Thread(target=feed, args=(i, p, ch)) for i, (p, ch) in enumerate(procs)]
    for t in ths:
        t.start()
    for t in ths:
        t.join()
    res = []
    for o in outs:
        if isinstance(o, Exception) or o is None:
            raise o or RuntimeError('replay produced no output')
        res.extend(o)
    return res


def write_evidence(prop, ev):
    os.makedirs(EVIDENCE, exist_ok=True)
    path = os.path.join(EVIDENCE, prop + '.json')
    tmp = path + '.tmp'
    with open(tmp, 'w') as f:
        json.dump(ev, f, indent=1, default=str)
    os.replace(tmp, path)
    return path


def run_check(prop, tier, seed, workers):
    t0 = time.time()
    mod = importlib.import_module('harness.' + prop.lower())
    level = mod.LEVEL
    ev = {'property_id': prop, 'tier': tier, 'seed': seed, 'level': level, 'coverage': {}, 'assumptions': [],
          'wall_s': 0.0, 'violations': 0}
    status = {'code': 0, 'lines': []}

    def finish(code, extra_lines=()):
        ev['wall_s'] = round(time.time() - t0, 2)
        try:
            write_evidence(prop, ev)
        except Exception as e:  # noqa
            print('could not write evidence:', e)
        for l in extra_lines:
            print(l)
        sys.stdout.flush()
        return code

    # 1. regenerate the encoding from the current tree
    try:
        mir, mir_s, regen = build.mir_dump()
    except Exception as e:  # noqa
        ev['coverage'] = {'explanation': 'MIR dump failed: ' + str(e)[:2000], 'evaluations': 0, 'distinct_nontrivial': 0}
        return finish(3, ['INCONCLUSIVE unsupported: MIR dump of the current tree failed', str(e)[-1500:]])
    from harness import common
    common.MIR = mir
    from mirsym import explore as ex

    if hasattr(mod, 'run_custom'):
        # checks that are not path explorations (e.g. Kani-driven) implement the whole protocol themselves
        return mod.run_custom(tier, seed, workers, ev, finish)

    cfgs = mod.configs(tier)
    # configurations over modules that need more crate features (local server, HTTP client) use their own dump
    for variant in sorted({c.get('mir', 'core') for c in cfgs} - {'core'}):
        try:
            _p, s2, regen2 = build.mir_dump(variant=variant)
            mir_s += s2
            regen = regen or regen2
        except Exception as e:  # noqa
            ev['coverage'] = {'explanation': 'MIR dump (' + variant + ') failed: ' + str(e)[:2000], 'evaluations': 0, 'distinct_nontrivial': 0}
            return finish(3, ['INCONCLUSIVE unsupported: MIR dump of the current tree failed (' + variant + ')', str(e)[-1500:]])
    agg_stats = ex.new_stats()
    covers, samples, violations, errors, panic_samples = set(), [], [], [], []
    bounds = []
    truncated = False
    per_cfg = []
    encoded, modelled = set(), set()
    for cfg in cfgs:
        opts = {'workers': workers, 'seed': seed, 'max_violations': cfg.get('max_violations', 8),
                'time_limit_s': cfg.get('time_limit_s', 900 if tier == 'quick' else 3000),
                'max_samples': 2, 'task_paths': cfg.get('task_paths', 200), 'task_seconds': cfg.get('task_seconds', 15)}
        opts.update(cfg.get('opts', {}))
        r = ex.explore(cfg['factory'], opts)
        for k, v in r['stats'].items():
            agg_stats[k] += v
        covers |= r['covers']
        samples.extend(r['samples'])
        for v in r['violations']:
            v['config'] = cfg['name']
        violations.extend(r['violations'])
        panic_samples.extend(r['panic_samples'])
        if r['error']:
            errors.append(cfg['name'] + ': ' + r['error'])
        truncated = truncated or r['truncated']
        bounds.append(cfg['name'] + ': ' + cfg.get('bounds', ''))
        per_cfg.append({'config': cfg['name'], 'paths': r['stats']['paths'], 'completed': r['stats']['completed'],
                        'queries': r['stats']['queries'], 'solver_s': round(r['stats']['solver_s'], 2),
                        'wall_s': round(r['wall_s'], 2), 'violations': len(r['violations'])})
        for s in r['samples']:
            if isinstance(s, dict):
                encoded |= set(s.pop('_encoded', []))
                modelled |= set(s.pop('_modelled', []))
        if len(violations) >= 8:
            break

    # 2. replay: counterexamples first, then a sample of non-violating paths (translator validation)
    replay_ok = True
    binary = None
    need_replay = hasattr(mod, 'replay_judge')
    mismatch = []
    validated = 0
    confirmed, unconfirmed = [], []
    if need_replay:
        try:
            binary, _ = build.replay_binary()
        except Exception as e:  # noqa
            errors.append('replay build: ' + str(e)[-1500:])
    if binary and violations:
        scns = []
        for v in violations:
            try:
                scns.append(mod.replay_scenario(v))
            except Exception as e:  # noqa
                scns.append(None)
                v['replay_error'] = f'{type(e).__name__}: {e}'
        idx = [i for i, s in enumerate(scns) if s is not None]
        outs = {}
        if idx:
            try:
                res = run_replay(binary, [scns[i] for i in idx])
                outs = dict(zip(idx, res))
            except Exception as e:  # noqa
                errors.append('replay run: ' + str(e)[-1500:])
        for i, v in enumerate(violations):
            if i in outs:
                try:
                    bad, detail = mod.replay_judge(scns[i], outs[i], v)
                    for _ in range(getattr(mod, 'REPLAY_RETRIES', 0)):
                        if bad:
                            break
                        o2 = run_replay(binary, [scns[i]])[0]
                        bad, detail = mod.replay_judge(scns[i], o2, v)
                except Exception as e:  # noqa
                    bad, detail = None, f'judge error {type(e).__name__}: {e}'
                v['replay'] = {'scenario': scns[i], 'violated_on_real_code': bad, 'detail': detail}
                (confirmed if bad else unconfirmed).append(v)
            else:
                unconfirmed.append(v)
    elif violations and not need_replay:
        # properties whose counterexamples are judged by the harness itself (documented why in the module)
        confirmed = list(violations)
    elif violations:
        unconfirmed = list(violations)
    if binary and hasattr(mod, 'validate_samples'):
        try:
            todo = [s for s in samples if isinstance(s, dict) and s.get('scenario')]
            skey = getattr(mod, 'SAMPLE_KEY', None)
            if skey:
                seen_k, uniq = set(), []
                for s in todo:
                    if s.get(skey) not in seen_k:
                        seen_k.add(s.get(skey))
                        uniq.append(s)
                todo = uniq
            # VERIF_SEED rotates which samples are replayed
            if todo:
                k = seed % len(todo)
                todo = (todo[k:] + todo[:k])[:getattr(mod, 'MAX_REPLAYED_SAMPLES', 24)]
                outs = run_replay(binary, [s['scenario'] for s in todo])
                for s, o in zip(todo, outs):
                    okv, detail = mod.validate_samples(s, o)
                    # scenarios whose real run involves the crate's own randomness (e.g. the implicit-cleanup draw of the
                    # object-store server) may differ from the prediction by chance: repeat before calling it a mismatch
                    for _ in range(getattr(mod, 'REPLAY_RETRIES', 0)):
                        if okv:
                            break
                        o = run_replay(binary, [s['scenario']])[0]
                        okv, detail = mod.validate_samples(s, o)
                    if okv:
                        validated += 1
                    elif getattr(mod, 'SAMPLE_FAILURE_IS_VIOLATION', False):
                        # the judgement was made on the compiled crate itself (e.g. two real storage backends disagree)
                        confirmed.append({'label': 'the compiled crate violates the property on a replayed path', 'info': {'class': 'replayed-path', 'detail': detail},
                                          'witness': {'scenario': s['scenario']}, 'config': 'replay',
                                          'replay': {'scenario': s['scenario'], 'violated_on_real_code': True, 'detail': detail}})
                    else:
                        mismatch.append({'scenario': s['scenario'], 'predicted': s.get('predicted'), 'detail': detail})
        except Exception as e:  # noqa
            errors.append('sample replay: ' + f'{type(e).__name__}: {e}' + traceback.format_exc()[-800:])

    # 2b. Engine K: Kani proof harnesses registered by the property (kernels the MIR engine's models rely on)
    kani_results = []
    kspec = getattr(mod, 'KANI', {}).get(tier, [])
    if kspec:
        from . import kani as kanidrv
        kani_results, kprobs = kanidrv.run_all(kspec, timeout_s=getattr(mod, 'KANI_TIMEOUT', 900))
        for kind, r in kprobs:
            if kind == 'violation':
                confirmed.append({'label': 'Kani harness ' + r['harness'] + ' failed', 'info': {'class': 'kani:' + r['harness'], 'failed_checks': r['failed_checks']},
                                  'witness': None, 'replay': {'detail': {'kani_log': r['log'], 'failed_checks': r['failed_checks']}}, 'config': 'kani'})
            else:
                errors.append('kani harness ' + r['harness'] + ': ' + r['status'] + ' (expected ' + r['expected'] + ')')

    # 3. classify
    known = load_known(prop)
    known_hits, new_viol = [], []
    for v in confirmed:
        hit = None
        for f in known:
            if matches(f, v.get('info')):
                hit = f
                break
        if hit:
            known_hits.append((hit, v))
        else:
            new_viol.append(v)

    required = set(getattr(mod, 'required_covers', lambda t: [])(tier))
    missing = sorted(required - covers)

    # 4. evidence
    nontrivial = agg_stats['completed']
    cov = {
        'states': agg_stats['completed'],
        'transitions': agg_stats['transitions'],
        'traces_validated_against_impl': validated,
        'evaluations': agg_stats['paths'],
        'distinct_nontrivial': nontrivial,
        'rule': getattr(mod, 'NONTRIVIAL_RULE', 'every completed path is a distinct sequence of solver-decided branch outcomes (distinct decision prefix) that reached the property assertion'),
        'samples': [_strip(s) for s in samples[:6]] or [{'note': 'no completed path'}],
        'obligations': agg_stats['obligations'] + len(kani_results),
        'discharged': agg_stats['discharged'] + sum(1 for r in kani_results if r['status'] == r['expected']),
        'solver_queries': agg_stats['queries'],
        'solver_seconds': round(agg_stats['solver_s'], 2),
        'paths_aborted_infeasible': agg_stats['aborted'],
        'paths_panicked': agg_stats['panics'],
        'exhaustive': (not truncated) and not errors,
        'bounds': bounds,
        'per_config': per_cfg,
        'cover_goals_hit': sorted(covers),
        'cover_goals_missing': missing,
        'functions_encoded': sorted(encoded)[:400],
        'trusted_base': sorted(modelled)[:400],
        'engine': 'mirsym: symbolic execution of rustc MIR (-Zunpretty=mir, regenerated from /repo on this run) with z3 ' + _z3v(),
        'mir_regenerated': regen, 'mir_dump_s': round(mir_s, 1),
        'explanation': getattr(mod, 'EXPLANATION', ''),
        'checker_cmd': f'./check {prop} --tier {tier}',
        'kani': kani_results,
        'replay_mismatches': mismatch[:3],
        'panic_samples': panic_samples[:3],
        'errors': errors[:3],
    }
    ev['coverage'] = cov
    ev['assumptions'] = list(getattr(mod, 'ASSUMPTIONS', []))
    ev['violations'] = len(new_viol)
    ev['known_findings_reproduced'] = [h['id'] for h, _ in known_hits]

    lines = []
    seen = set()
    for h, v in known_hits:
        if h['id'] not in seen:
            seen.add(h['id'])
            lines.append(f"KNOWN-FINDING: property={prop} {h['id']}: {h.get('description', '')}")
    if new_viol:
        os.makedirs(CEX, exist_ok=True)
        path = os.path.join(CEX, f'{prop}_{tier}_{seed}.json')
        with open(path, 'w') as f:
            json.dump({'property': prop, 'violations': new_viol[:5]}, f, indent=1, default=str)
        v0 = new_viol[0]
        lines.append(f"VIOLATION property={prop} replay={path}")
        lines.append('  ' + str(v0.get('label')) + ' :: ' + json.dumps(v0.get('info'), default=str)[:300])
        if v0.get('replay'):
            lines.append('  real-code replay: ' + json.dumps(v0['replay'].get('detail'), default=str)[:400])
        return finish(1, lines)
    if unconfirmed:
        lines.append(f"INCONCLUSIVE model-mismatch: {len(unconfirmed)} solver counterexample(s) did not reproduce on the compiled crate")
        lines.append('  ' + json.dumps(unconfirmed[0], default=str)[:1200])
        return finish(2, lines)
    if mismatch:
        lines.append('INCONCLUSIVE model-mismatch: a sampled path disagrees with the compiled crate')
        lines.append('  ' + json.dumps(mismatch[0], default=str)[:1500])
        return finish(2, lines)
    if errors:
        lines.append('INCONCLUSIVE unsupported/timeout: ' + errors[0][:3000])
        return finish(3, lines)
    if truncated:
        lines.append('INCONCLUSIVE timeout: exploration budget exhausted before the bound was covered')
        return finish(3, lines)
    if missing:
        lines.append('INCONCLUSIVE uncovered: cover goals not reached: ' + ', '.join(missing))
        return finish(3, lines)
    if agg_stats['completed'] == 0:
        lines.append('INCONCLUSIVE uncovered: no path completed')
        return finish(3, lines)
    lines.append(f"OK property={prop} tier={tier} paths={agg_stats['paths']} completed={agg_stats['completed']} "
                 f"obligations={agg_stats['obligations']} queries={agg_stats['queries']} solver_s={agg_stats['solver_s']:.1f} "
                 f"replayed={validated} wall_s={time.time() - t0:.1f}")
    return finish(0, lines)


def _strip(s):
    if isinstance(s, dict):
        return {k: v for k, v in s.items() if not k.startswith('_')}
    return s


def _z3v():
    try:
        import z3
        return z3.get_version_string()
    except Exception:  # noqa
        return '?'


def replay_file(prop, path):
    mod = importlib.import_module('harness.' + prop.lower())
    data = json.load(open(path))
    binary, _ = build.replay_binary()
    code = 0
    for v in data.get('violations', []):
        scn = v.get('replay', {}).get('scenario') or mod.replay_scenario(v)
        out = run_replay(binary, [scn])[0]
        bad, detail = mod.replay_judge(scn, out, v)
        print(json.dumps({'violated_on_real_code': bad, 'detail': detail}, default=str)[:3000])
        if bad:
            code = 1
    return code
