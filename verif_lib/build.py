"""Regenerates everything derived from /repo's current working tree: the MIR dump (Engine M),
the replay binary, the Kani harness build.  Cached by a content hash of the sources."""
import fcntl
import hashlib
import os
import subprocess
import time

VERIF = os.path.dirname(os.path.dirname(os.path.abspath(__file__)))
REPO = os.environ.get('VERIF_REPO', '/repo')
BUILD = os.environ.get('VERIF_BUILD') or os.path.join(VERIF, '.build')
# development aid: VERIF_REPO=<worktree> VERIF_BUILD=<scratch dir> runs the same checks against another checkout without
# touching /repo or /verif/.build (crates with a path dependency on /repo are copied with the path rewritten)
ALT = os.path.abspath(REPO) != '/repo'
OUT = BUILD if ALT else VERIF
NIGHTLY = 'nightly'
GUARD = 'gothenburgbitfactory_taskchampion_verif'


def _env():
    e = dict(os.environ)
    e['CARGO_NET_OFFLINE'] = 'true'
    e.pop('RUSTFLAGS', None)
    return e


def source_hash():
    h = hashlib.sha256()
    files = []
    for root, _d, fs in os.walk(os.path.join(REPO, 'src')):
        for f in fs:
            files.append(os.path.join(root, f))
    files += [os.path.join(REPO, 'Cargo.toml'), os.path.join(REPO, 'Cargo.lock')]
    for p in sorted(files):
        h.update(p.encode())
        with open(p, 'rb') as fh:
            h.update(fh.read())
    return h.hexdigest()


class Lock:
    def __init__(self, name):
        os.makedirs(BUILD, exist_ok=True)
        self.path = os.path.join(BUILD, name + '.lock')

    def __enter__(self):
        self.f = open(self.path, 'w')
        fcntl.flock(self.f, fcntl.LOCK_EX)
        return self

    def __exit__(self, *a):
        fcntl.flock(self.f, fcntl.LOCK_UN)
        self.f.close()


FEATURES = {
    # the default dump: everything that is pure Rust (object-store server, sealing) without FFI-backed modules
    'core': 'cloud,encryption',
    # adds the modules written over FFI-backed crates (rusqlite, reqwest); those crates are modelled at their call
    # boundary: the local server (4 fixed SQL statements) and the HTTP client (request/response mapping)
    'full': 'cloud,encryption,server-sync,server-local,storage-sqlite,bundled,tls-webpki-roots',
}


def mir_path(variant='core'):
    return os.path.join(BUILD, 'crate.mir' if variant == 'core' else 'crate-%s.mir' % variant)


def mir_dump(log=print, variant='core'):
    """returns (path, seconds, regenerated)"""
    h = source_hash()
    out = mir_path(variant)
    tag = out + '.hash'
    with Lock('mir'):
        if os.path.exists(out) and os.path.exists(tag) and open(tag).read().strip() == h and os.path.getsize(out) > 100000:
            return out, 0.0, False
        t0 = time.time()
        cmd = ['cargo', '+' + NIGHTLY, 'rustc', '--offline', '--lib', '--no-default-features',
               '--features', FEATURES[variant], '--', '-Zunpretty=mir', '-C', 'debug-assertions=off',
               '-C', 'overflow-checks=on', '--cfg', 'mirsym_h' + h[:12], '-A', 'unexpected_cfgs']
        env = _env()
        env['CARGO_TARGET_DIR'] = os.path.join(BUILD, 'mir-target')
        tmp = out + '.tmp'
        # the nightly leaves the dump empty when nothing was recompiled: the per-hash --cfg forces the crate itself
        with open(tmp, 'w') as fo, open(os.path.join(BUILD, 'mir.err'), 'w') as fe:
            r = subprocess.run(cmd, cwd=REPO, env=env, stdout=fo, stderr=fe)
        if r.returncode != 0 or os.path.getsize(tmp) < 100000:
            err = open(os.path.join(BUILD, 'mir.err')).read()[-3000:]
            raise RuntimeError('MIR dump failed (the tree does not compile with the pinned nightly?):\n' + err)
        os.replace(tmp, out)
        with open(tag, 'w') as f:
            f.write(h)
        return out, time.time() - t0, True


def crate_dir(name):
    """the harness crate to build: /verif/<name>, or (other checkout) a copy with the path dependency rewritten"""
    src = os.path.join(VERIF, name)
    if not ALT:
        return src
    import shutil
    dst = os.path.join(BUILD, name + '-src')
    os.makedirs(BUILD, exist_ok=True)
    with Lock('copy-' + name):
        if os.path.exists(dst):
            shutil.rmtree(dst)
        shutil.copytree(src, dst, ignore=shutil.ignore_patterns('target', 'Cargo.lock'))
        p = os.path.join(dst, 'Cargo.toml')
        s = open(p).read().replace('path = "/repo"', 'path = "%s"' % os.path.abspath(REPO))
        open(p, 'w').write(s)
    return dst


def replay_binary(log=print):
    """build /verif/replay against /repo's working tree with hooks enabled; returns path to the binary"""
    crate = crate_dir('replay')
    with Lock('replay'):
        env = _env()
        env['CARGO_TARGET_DIR'] = os.path.join(BUILD, 'replay-target')
        env['RUSTFLAGS'] = '--cfg ' + GUARD + ' -A unexpected_cfgs'
        lock_src = os.path.join(REPO, 'Cargo.lock')
        lock_dst = os.path.join(crate, 'Cargo.lock')
        if not os.path.exists(lock_dst):
            import shutil
            shutil.copy(lock_src, lock_dst)
        t0 = time.time()
        r = subprocess.run(['cargo', 'build', '--offline', '--release'], cwd=crate, env=env,
                           stdout=subprocess.PIPE, stderr=subprocess.STDOUT, text=True)
        if r.returncode != 0:
            raise RuntimeError('replay binary build failed:\n' + r.stdout[-4000:])
        return os.path.join(BUILD, 'replay-target', 'release', 'tc-replay'), time.time() - t0
