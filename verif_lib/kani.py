"""Engine K driver: runs Kani proof harnesses of /verif/kani against /repo's current tree (hooks on)."""
import os
import re
import subprocess
import time

from . import build

KANI_DIR = os.path.join(build.VERIF, 'kani')
_ALT_DIR = {}


def kani_dir():
    if not build.ALT:
        return KANI_DIR
    if 'd' not in _ALT_DIR:
        _ALT_DIR['d'] = build.crate_dir('kani')
    return _ALT_DIR['d']


def run_harness(name, timeout_s=600):
    """returns dict(name, status in SUCCESSFUL|FAILED|TIMEOUT|ERROR, seconds, log, checks)"""
    t0 = time.time()
    mod = 'harnesses' if name.startswith(('k_chrono', 'k_timestamp', 'k_utc')) else 'kernel_harnesses'
    full = mod + '::' + name
    with build.Lock('kani'):
        lock_src = os.path.join(build.REPO, 'Cargo.lock')
        kd = kani_dir()
        lock_dst = os.path.join(kd, 'Cargo.lock')
        try:
            import shutil
            shutil.copy(lock_src, lock_dst)
        except Exception:  # noqa
            pass
        env = dict(os.environ)
        env['VERIF_BUILD'] = build.BUILD
        p = subprocess.run([os.path.join(kd, 'run_one.sh'), full, str(timeout_s)], capture_output=True, text=True, env=env)
    out = p.stdout.strip().split('\n')[-1] if p.stdout.strip() else ''
    m = re.match(r'(\S+) (SUCCESSFUL|FAILED|TIMEOUT|ERROR) (\d+)', out)
    status = m.group(2) if m else 'ERROR'
    log = os.path.join(build.BUILD, 'kani-logs', full + '.log')
    checks = None
    failed_props = []
    try:
        text = open(log).read()
        mm = re.search(r'\*\* (\d+) of (\d+) failed', text)
        if mm:
            checks = {'failed': int(mm.group(1)), 'total': int(mm.group(2))}
        failed_props = re.findall(r'Failed Checks: (.*)', text)[:5]
        ms = re.search(r'Verification Time: ([\d.]+)s', text)
        vt = float(ms.group(1)) if ms else None
    except Exception:  # noqa
        vt = None
    return {'harness': name, 'status': status, 'seconds': round(time.time() - t0, 1), 'solver_seconds': vt, 'log': log,
            'checks': checks, 'failed_checks': failed_props}


def run_all(specs, timeout_s=600):
    """specs: list of (harness, expected_status).  returns (results, problems) where problems is a list of
    ('violation'|'inconclusive', result)"""
    results, problems = [], []
    for name, expected in specs:
        r = run_harness(name, timeout_s)
        r['expected'] = expected
        results.append(r)
        if r['status'] in ('TIMEOUT', 'ERROR'):
            problems.append(('inconclusive', r))
        elif r['status'] != expected:
            if expected == 'SUCCESSFUL':
                problems.append(('violation', r))
            else:
                # a reachability witness that does not fail = vacuous harness
                problems.append(('inconclusive', r))
    return results, problems
