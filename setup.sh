#!/bin/bash
# Offline setup after a fresh restore: pre-build everything the checks derive from /repo so that the
# per-check rebuilds are incremental.  Nothing here is needed for correctness: every check rebuilds
# what is stale.
set -e
cd "$(dirname "$0")"
export CARGO_NET_OFFLINE=true
mkdir -p .build evidence
python3-vt - <<'PY'
import sys
sys.path.insert(0, '.')
from verif_lib import build
p, s, regen = build.mir_dump()
print('mir dump', p, f'{s:.1f}s')
p, s, regen = build.mir_dump(variant='full')
print('mir dump (full feature set)', p, f'{s:.1f}s')
b, s = build.replay_binary()
print('replay binary', b, f'{s:.1f}s')
PY
if [ -d kani ]; then
  ./kani/build.sh || echo "kani pre-build failed (checks will retry)"
fi
echo setup done
